#!/bin/bash
export SEEDED_OUT=/verif/seeded
T=tools/evalmutant.py
python3 $T /tmp/mut/wt-C20 MUTANT2 C20-m2 C20
python3 $T /tmp/mut/wt-C09 MUTANT3 C09-m3 C09
python3 $T /tmp/mut/wt-C09 MUTANT4 C09-m4 C09
python3 $T /tmp/mut/wt-C14 MUTANT3 C14-m3 C14 C06
python3 $T /tmp/mut/wt-C14 MUTANT4 C14-m4 C14
python3 $T /tmp/mut/wt-C20 MUTANT3 C20-m3 C20
python3 $T /tmp/mut/wt-C20 MUTANT4 C20-m4 C20
python3 $T /tmp/mut/wt-C16 MUTANT3 C16-m3 C16 C15
python3 $T /tmp/mut/wt-C16 MUTANT4 C16-m4 C16 C08
python3 $T /tmp/mut/wt-C17 MUTANT3 C17-m3 C17
python3 $T /tmp/mut/wt-C17 MUTANT4 C17-m4 C17
python3 $T /tmp/mut/wt-C12 MUTANT3 C12-m3 C12
python3 $T /tmp/mut/wt-C12 MUTANT4 C12-m4 C12 C08
