#!/bin/bash
# third wave of sub-agent mutants + re-evaluation of those missed earlier (run from a snapshot via vp run)
export SEEDED_OUT=/verif/seeded
T=tools/evalmutant.py
python3 $T /tmp/mut/wt-C15 MUTANT2 C15-m2 C15 C08
python3 $T /tmp/mut/wt-C12 MUTANT2 C12-m2 C12
python3 $T /tmp/mut/wt-C14 MUTANT2 C14-m2 C14
python3 $T /tmp/mut/wt-C08 MUTANT2 C08-m2 C08 C13
python3 $T /tmp/mut/wt-C19 MUTANT2 C19-m2 C19 C03
python3 $T /tmp/mut/wt-C03 MUTANT1 C03-m1 C03
python3 $T /tmp/mut/wt-C03 MUTANT2 C03-m2 C03 C19
python3 $T /tmp/mut/wt-C05 MUTANT1 C05-m1 C05
python3 $T /tmp/mut/wt-C05 MUTANT2 C05-m2 C05
python3 $T /tmp/mut/wt-C10 MUTANT1 C10-m1 C10
python3 $T /tmp/mut/wt-C10 MUTANT2 C10-m2 C10
python3 $T /tmp/mut/wt-C11 MUTANT1 C11-m1 C11 C05
python3 $T /tmp/mut/wt-C11 MUTANT2 C11-m2 C11 C06
python3 $T /tmp/mut/wt-C18 MUTANT1 C18-m1 C18
python3 $T /tmp/mut/wt-C18 MUTANT2 C18-m2 C18 C09
python3 $T /tmp/mut/wt-C20 MUTANT1 C20-m1 C20 C12
python3 $T /tmp/mut/wt-C20 MUTANT2 C20-m2 C20
