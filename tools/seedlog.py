#!/usr/bin/env python3
"""seedlog.py <check> <seed> [grep]: run one seed with the event log kept and print it
(uses the worker binary already built under <verif>/build)."""
import sys, json, os, subprocess, tempfile, re
V = os.path.dirname(os.path.dirname(os.path.abspath(__file__)))
cid, seed = sys.argv[1], int(sys.argv[2])
binary = "%s/build/worker-%s.test" % (V, cid)
os.makedirs(V + "/build/tmp", exist_ok=True)
d = tempfile.mkdtemp(dir=V + "/build/tmp")
json.dump({"check": cid, "mode": "batch", "tier": "quick", "seeds": [seed], "out": d + "/o", "keep_log": True}, open(d + "/j", "w"))
env = dict(os.environ, SIM_JOB=d + "/j", GOMAXPROCS="1")
r = subprocess.run([binary, "-test.run", "^TestWorker$"], env=env, capture_output=True, text=True)
for l in open(d + "/o"):
    if l.startswith("RESULT "):
        res = json.loads(l[7:])
        for x in res.get("log_tail", []):
            if len(sys.argv) < 4 or re.search(sys.argv[3], x):
                print(x)
        print(json.dumps({k: v for k, v in res.items() if k not in ("log_tail", "plan")}, indent=1)[:3000])
    elif l.startswith("START ") and '"Seed":%d,' % seed in l.replace(" ", "") and len(sys.argv) > 4:
        print(l[:3000])
if r.returncode != 0:
    print(r.stderr[-3000:])
