#!/bin/bash
export SEEDED_OUT=/verif/seeded
T=tools/evalmutant.py
e() { [ -f /tmp/mut/$1/$2/patch.diff ] && python3 $T /tmp/mut/$1 $2 "${@:3}"; }
e w6-C05 MUTANT1 C05-m5 C05 C11
e w6-C05 MUTANT2 C05-m6 C05
e w6-C18 MUTANT1 C18-m5 C18
e w6-C18 MUTANT2 C18-m6 C18
e w6-C15 MUTANT1 C15-m7 C15
e w6-C15 MUTANT2 C15-m8 C15
e w6-C11 MUTANT1 C11-m7 C11
e w6-C09 MUTANT1 C09-m9 C09
e w6-C09 MUTANT2 C09-m10 C09
e w6-C03 MUTANT2 C03-m9 C03
e w6-C06 MUTANT1 C06-m8 C06
e w6-C06 MUTANT2 C06-m9 C06
e w6-C10 MUTANT1 C10-m10 C10
e w6-C10 MUTANT2 C10-m11 C10
exit 0
