#!/usr/bin/env python3
"""batchdiff.py <binary> <check> <seed-list> <seed-list> ... : run each list as a
batch in its own process; print the hash each list produced per seed."""
import sys, json, os, subprocess, tempfile
binary, cid = sys.argv[1], sys.argv[2]
for arg in sys.argv[3:]:
    seeds = [int(x) for x in arg.split(",")]
    d = tempfile.mkdtemp(dir="/verif/build/tmp")
    job = {"check": cid, "mode": "batch", "tier": "quick", "seeds": seeds, "out": d + "/o"}
    json.dump(job, open(d + "/j", "w"))
    env = dict(os.environ, SIM_JOB=d + "/j", GOMAXPROCS="1")
    subprocess.run([binary, "-test.run", "^TestWorker$"], env=env, capture_output=True)
    res = [json.loads(l[7:]) for l in open(d + "/o") if l.startswith("RESULT ")]
    print(arg, "->", " ".join("%d:%s/%s" % (r["seed"], r["hash"][:6], (r.get("plan") or {}).get("knobs", {}).get("faultn", "")) for r in res))
