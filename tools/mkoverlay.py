#!/usr/bin/env python3
"""Generate the simrt overlay: patched copies of a few files of the pinned
go1.26.8 standard library, plus overlay.json for `go build -overlay`.

Every hunk asserts that its `old` text occurs exactly once; if one does not,
the script exits 2 (build trouble, never a violation).  Nothing in GOROOT is
touched.  See DESIGN.md section 2.1 and Appendix A.
"""
import json, os, sys, hashlib

GOROOT = os.environ.get("SIMRT_GOROOT", "/opt/veriftools/go1.26.8")
SRC = os.path.join(GOROOT, "src")
OUT = os.path.abspath(sys.argv[1] if len(sys.argv) > 1 else "/verif/build")

T = "\t"

RAND_APPEND = r'''

// ---------------------------------------------------------------------------
// simrt: deterministic-simulation support (added by /verif/tools/mkoverlay.py)
// ---------------------------------------------------------------------------

var simrandOn uint32
var simrandState uint64
var simyieldN uint32
var simyields uint64
var simdraws uint64
var simticks uint64

// simSeed switches the seeded runtime on.
//
//go:linkname simSeed
func simSeed(seed uint64, yieldN uint32) {
	simrandState = seed
	simyieldN = yieldN
	simyields = 0
	simdraws = 0
	simticks = 0
	simrandOn = 1
}

//go:linkname simOff
func simOff() {
	simrandOn = 0
	simyieldN = 0
}

//go:linkname simSetYield
func simSetYield(yieldN uint32) {
	simyieldN = yieldN
}

//go:linkname simYields
func simYields() uint64 {
	return simyields
}

//go:linkname simDraws
func simDraws() uint64 {
	return simdraws
}

// simTick is a global event counter that creates no happens-before edge.
//
//go:linkname simTick
//go:nosplit
func simTick() uint64 {
	simticks++
	return simticks
}

//go:linkname simResetTick
func simResetTick() {
	simticks = 0
}

// simNextWake returns the bubble's next timer deadline (0 if none).
//
//go:linkname simNextWake
func simNextWake() int64 {
	b := getg().bubble
	if b == nil {
		return 0
	}
	return b.timers.wakeTime()
}

// simBubbleTotal returns the number of goroutines in the caller's bubble.
//
//go:linkname simBubbleTotal
func simBubbleTotal() int {
	b := getg().bubble
	if b == nil {
		return 0
	}
	lock(&b.mu)
	n := b.total
	unlock(&b.mu)
	return n
}

//go:nosplit
func simInBubble() bool {
	gp := getg()
	if gp.bubble != nil {
		return true
	}
	if gp.m != nil && gp.m.curg != nil && gp.m.curg.bubble != nil {
		return true
	}
	return false
}

//go:nosplit
func simrand() uint64 {
	simdraws++
	simrandState += 0x9e3779b97f4a7c15
	z := simrandState
	z = (z ^ (z >> 30)) * 0xbf58476d1ce4e5b9
	z = (z ^ (z >> 27)) * 0x94d049bb133111eb
	return z ^ (z >> 31)
}

func simselectrandn(n uint32) uint32 {
	if simrandOn != 0 && simInBubble() {
		return uint32((uint64(uint32(simrand())) * uint64(n)) >> 32)
	}
	return cheaprandn(n)
}

func simtimerrand() uint32 {
	if simrandOn != 0 {
		return uint32(simrand())
	}
	return cheaprand()
}

// simYieldPoint is a seeded pre-emption point for bubbled goroutines.
func simYieldPoint() {
	if simyieldN == 0 {
		return
	}
	gp := getg()
	if gp.bubble == nil || gp.m.curg != gp || gp.m.locks != 0 || gp.m.preemptoff != "" {
		return
	}
	if uint32(simrand())%simyieldN == 0 {
		simyields++
		goyield()
	}
}

//go:linkname sync_runtime_simYield sync.runtime_simYield
func sync_runtime_simYield() {
	simYieldPoint()
}

// simGoID identifies the calling goroutine (the simulator must not park its
// own driver goroutine).
//
//go:linkname simGoID
func simGoID() uint64 {
	return getg().goid
}

// simBubbled reports whether the caller runs inside a synctest bubble.
//
//go:linkname simBubbled
func simBubbled() bool {
	return simrandOn != 0 && getg().bubble != nil
}
'''

HUNKS = {
    "runtime/rand.go": [
        ("replace",
         "func maps_rand() uint64 {\n\treturn rand()\n}",
         "func maps_rand() uint64 {\n\tif simrandOn != 0 && simInBubble() {\n\t\treturn simrand()\n\t}\n\treturn rand()\n}"),
        # sync.Pool drops a quarter of the Puts at random in race builds
        # (runtime.randn); inside a bubble the choice comes from the seeded stream
        ("replace",
         "func randn(n uint32) uint32 {\n\t// See https://lemire.me/blog/2016/06/27/a-fast-alternative-to-the-modulo-reduction/\n\treturn uint32((uint64(uint32(rand())) * uint64(n)) >> 32)\n}",
         "func randn(n uint32) uint32 {\n\t// See https://lemire.me/blog/2016/06/27/a-fast-alternative-to-the-modulo-reduction/\n\tif simrandOn != 0 && simInBubble() {\n\t\treturn uint32((uint64(uint32(simrand())) * uint64(n)) >> 32)\n\t}\n\treturn uint32((uint64(uint32(rand())) * uint64(n)) >> 32)\n}"),
        ("append", RAND_APPEND),
    ],
    "runtime/synctest.go": [
        # timers never fire early and, as on any real machine, a little late:
        # when the bubble's clock jumps to the next timer it lands 1 microsecond
        # past it. Without this, code that sleeps for exactly the remaining part
        # of an interval and then tests "elapsed > interval" (client pinger)
        # spins forever at the boundary instant, because virtual time is exact.
        ("replace",
         "\t\tbubble.now = next\n",
         "\t\tbubble.now = next\n\t\tif simrandOn != 0 {\n\t\t\tbubble.now += 1000\n\t\t}\n"),
    ],
    "runtime/select.go": [
        ("replace",
         "j := cheaprandn(uint32(norder + 1))",
         "j := simselectrandn(uint32(norder + 1))"),
        ("replace",
         "\tgp := getg()\n\tif debugSelect {\n\t\tprint(\"select: cas0=\"",
         "\tif block {\n\t\tsimYieldPoint()\n\t}\n\tgp := getg()\n\tif debugSelect {\n\t\tprint(\"select: cas0=\""),
    ],
    "runtime/time.go": [
        ("replace", "t.rand = cheaprand()", "t.rand = simtimerrand()"),
        # a fake timer that is already due when it is armed (time.After(0), a
        # negative duration) fires one nanosecond later instead of "now": code that
        # loops on zero-length sleeps until the clock moves (client pinger when the
        # remaining keep-alive window is exactly zero) would otherwise spin forever,
        # because virtual time only advances when every goroutine is blocked
        ("replace",
         "\tif period < 0 {\n\t\tthrow(\"timer period must be non-negative\")\n\t}\n\tasync := debug.asynctimerchan.Load() != 0\n",
         "\tif period < 0 {\n\t\tthrow(\"timer period must be non-negative\")\n\t}\n\tif t.isFake && simrandOn != 0 {\n\t\tif b := getg().bubble; b != nil && when <= b.now {\n\t\t\twhen = b.now + 1\n\t\t}\n\t}\n\tasync := debug.asynctimerchan.Load() != 0\n"),
    ],
    "runtime/alg.go": [
        ("replace",
         "\tfor i := range key {\n\t\tkey[i] = bootstrapRand()\n\t}\n}",
         "\tfor i := range key {\n\t\tkey[i] = 0x5851f42d4c957f2d * uint64(i+1)\n\t}\n}"),
    ],
    "runtime/proc.go": [
        ("replace",
         "\t\t} else if pd.schedwhen+forcePreemptNS <= now {\n\t\t\tpreemptone(pp)",
         "\t\t} else if pd.schedwhen+forcePreemptNS <= now && simrandOn == 0 {\n\t\t\tpreemptone(pp)"),
        ("replace",
         "const randomizeScheduler = raceenabled",
         "const randomizeScheduler = false"),
        ("replace",
         "\trunqput(mp.p.ptr(), gp, next)\n\twakep()\n\treleasem(mp)\n}",
         "\trunqput(mp.p.ptr(), gp, next && !(simrandOn != 0 && gp.bubble == nil))\n\twakep()\n\treleasem(mp)\n}"),
    ],
    "runtime/sema.go": [
        ("replace",
         "func internal_sync_nanotime() int64 {\n\treturn nanotime()",
         "func internal_sync_nanotime() int64 {\n\tif simrandOn != 0 {\n\t\tif b := getg().bubble; b != nil {\n\t\t\treturn b.now\n\t\t}\n\t}\n\treturn nanotime()"),
    ],
    "runtime/runtime2.go": [
        ("replace",
         "\twaitReasonSynctestSelect:        true,\n}",
         "\twaitReasonSynctestSelect:        true,\n\twaitReasonSyncMutexLock:         true,\n\twaitReasonSyncRWMutexRLock:      true,\n\twaitReasonSyncRWMutexLock:       true,\n}"),
    ],
    "runtime/chan.go": [
        ("replace",
         "func chansend1(c *hchan, elem unsafe.Pointer) {\n",
         "func chansend1(c *hchan, elem unsafe.Pointer) {\n\tsimYieldPoint()\n"),
        ("replace",
         "func chanrecv1(c *hchan, elem unsafe.Pointer) {\n",
         "func chanrecv1(c *hchan, elem unsafe.Pointer) {\n\tsimYieldPoint()\n"),
        ("replace",
         "func chanrecv2(c *hchan, elem unsafe.Pointer) (received bool) {\n",
         "func chanrecv2(c *hchan, elem unsafe.Pointer) (received bool) {\n\tsimYieldPoint()\n"),
    ],
    "sync/mutex.go": [
        ("replace",
         "func (m *Mutex) Lock() {\n\tm.mu.Lock()\n}",
         "func (m *Mutex) Lock() {\n\truntime_simYield()\n\tif simLockHook != nil {\n\t\tsimLockHook()\n\t}\n\tm.mu.Lock()\n}"),
    ],
    "sync/rwmutex.go": [
        ("replace",
         "func (rw *RWMutex) RLock() {\n",
         "func (rw *RWMutex) RLock() {\n\truntime_simYield()\n\tif simLockHook != nil {\n\t\tsimLockHook()\n\t}\n"),
        ("replace",
         "func (rw *RWMutex) Lock() {\n",
         "func (rw *RWMutex) Lock() {\n\truntime_simYield()\n\tif simLockHook != nil {\n\t\tsimLockHook()\n\t}\n"),
    ],
    "sync/runtime.go": [
        ("append", "\n//go:linkname runtime_simYield\nfunc runtime_simYield()\n\n// simLockHook, if set by the simulator, runs before every Lock/RLock; it may\n// park the calling goroutine until the simulator releases it.\n//\n//go:linkname simLockHook\nvar simLockHook func()\n"),
    ],
}


def die(msg):
    sys.stderr.write("mkoverlay: " + msg + "\n")
    sys.exit(2)


def main():
    if not os.path.isdir(SRC):
        die("GOROOT source not found: " + SRC)
    outdir = os.path.join(OUT, "simrt")
    os.makedirs(outdir, exist_ok=True)
    replace = {}
    digest = hashlib.sha256()
    for rel, hunks in sorted(HUNKS.items()):
        path = os.path.join(SRC, rel)
        try:
            text = open(path, encoding="utf-8").read()
        except OSError as e:
            die("cannot read %s: %s" % (path, e))
        for h in hunks:
            if h[0] == "replace":
                _, old, new = h
                n = text.count(old)
                if n != 1:
                    die("%s: hunk %r matches %d times (want exactly 1)" % (rel, old[:50], n))
                text = text.replace(old, new)
            elif h[0] == "append":
                text = text + h[1]
            else:
                die("bad hunk kind")
        dst = os.path.join(outdir, rel.replace("/", "__"))
        old = None
        if os.path.exists(dst):
            old = open(dst, encoding="utf-8").read()
        if old != text:
            with open(dst, "w", encoding="utf-8") as f:
                f.write(text)
        replace[path] = dst
        digest.update(rel.encode())
        digest.update(text.encode())
    ov = json.dumps({"Replace": replace}, indent=1, sort_keys=True)
    ovpath = os.path.join(OUT, "overlay.json")
    if not os.path.exists(ovpath) or open(ovpath).read() != ov:
        with open(ovpath, "w") as f:
            f.write(ov)
    print("overlay ok %s files=%d sha=%s" % (ovpath, len(replace), digest.hexdigest()[:16]))


if __name__ == "__main__":
    main()
