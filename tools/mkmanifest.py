#!/usr/bin/env python3
"""Regenerate /verif/MANIFEST.json from bin/checks.py (claimed checks) and the
not-applicable table below; validates against the schema when jsonschema is available."""
import json, sys, os
V = os.path.dirname(os.path.dirname(os.path.abspath(__file__)))
sys.path.insert(0, os.path.join(V, "bin"))
from checks import CHECKS

NA = {
 "C01": "pure function of one packet value (Encode/Decode/Len): no schedule, clock, fault or interleaving for a simulator to decide; its stream-level consequence (a Len/Encode disagreement ships stale pooled bytes) is observed by C03's wire-byte oracle",
 "C02": "pure function of a byte string: no schedule, clock, fault or interleaving; the two facets that meet nondeterminism (pooled-buffer aliasing, re-encodability of admitted messages when forwarded) are covered by C03 and C14",
 "C04": "pure function of (stored set, query): no schedule, clock, fault or interleaving; the independent MQTT 4.7 matcher it calls for is the reference model of C05/C06/C11, where a matching defect surfaces (rule C05.search-model found the a/+ vs a asymmetry, since fixed)",
}
props = [json.loads(l) for l in open(os.path.join(V, "properties.jsonl"))]
checks = []
for cid in sorted(CHECKS):
    c = CHECKS[cid]
    checks.append({
        "property_id": cid,
        "quick_cmd": "bin/simcheck run %s --tier quick" % cid,
        "thorough_cmd": "bin/simcheck run %s --tier thorough" % cid,
        "evidence_file": "/verif/evidence/%s.json" % cid,
        "replay_cmd_template": "bin/simcheck replay {path}",
        "engine": "simcheck",
        "level_claimed": {"category": c["level"], "text": c["level_text"], "design_ref": "DESIGN.md section 4, " + cid},
        "level_note": c["level_note"],
        "technique": c["technique"],
    })
notap = [{"property_id": k, "reason": v} for k, v in NA.items()]
for p in props:
    if p["id"] not in CHECKS and p["id"] not in NA:
        notap.append({"property_id": p["id"], "reason": "check not built yet in this commit (its simulation world is under construction, DESIGN.md section 4); it will be claimed once the check exists"})
m = {
 "version": 1,
 "setup_cmd": "bin/simcheck build",
 "hooks": {"guard": "verif",
           "enable": "go1.26.8 test -tags verif -overlay /verif/build/overlay.json (no hook exists in /repo: every seam the simulator needs is an existing interface)",
           "baseline_off_cmd": "cd /repo && GOFLAGS=-mod=mod GOPROXY=off go test -vet=off -count=1 -timeout 25m ./...",
           "source_commits": [], "add_only": True},
 "engines": [{"name": "simcheck", "path": "bin/simcheck", "serves_properties": sorted(CHECKS),
              "kind_free_text": "deterministic simulation with fault injection: go1.26.8 runtime overlay (seeded select/map/timer-tie/lock-yield choices, virtual-time mutex starvation clock) + testing/synctest virtual clock and quiescence + seeded step scheduler + simulated byte transport, fault-injecting transport.Conn/Backend/Session wrappers + reference-model and history oracles; python driver fans seeds over 16 worker processes, minimises plans by delta debugging and replays them in fresh processes"}],
 "checks": checks,
 "not_applicable": sorted(notap, key=lambda x: x["property_id"]),
 "notes": "Fixed defects and known findings: known_findings.json; replay files of fixed defects: findings/. bin/simcheck selftest is the cross-process determinism self-test.",
}
json.dump(m, open(os.path.join(V, "MANIFEST.json"), "w"), indent=1)
try:
    import jsonschema
    jsonschema.validate(m, json.load(open("/root/.vp/MANIFEST.schema.json")))
    print("MANIFEST.json valid, %d checks, %d not claimed" % (len(checks), len(notap)))
except ImportError:
    print("MANIFEST.json written (jsonschema not importable here)")
