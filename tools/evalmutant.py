#!/usr/bin/env python3
"""evalmutant.py <worktree> <MUTANTdir-name> <id> <check> [<check>...]

1. confirms the mutant in its scratch worktree: builds, suite green, demo fails
   with it and passes without it;
2. applies the patch to /repo, runs the named simchecks (quick), reverts /repo;
3. stores patch, demo and meta.json under /verif/seeded/<id>/.
"""
import sys, os, re, json, subprocess, shutil, glob, time
wt, mdir, mid, checks = sys.argv[1], sys.argv[2], sys.argv[3], sys.argv[4:]
env = dict(os.environ, GOFLAGS="-mod=mod", GOPROXY="off", GOSUMDB="off")
ROOT = os.path.dirname(os.path.dirname(os.path.abspath(__file__)))
OUTROOT = os.environ.get("SEEDED_OUT", os.path.join(ROOT, "seeded"))
M = os.path.join(wt, mdir)
# confirm in a private scratch worktree (the agent's worktree may still be in use)
src_wt = wt
wt = "/tmp/mut/eval-%s-%d" % (mid, os.getpid())
subprocess.run(["git", "-C", "/repo", "worktree", "add", "-q", "--detach", wt, "HEAD"], check=True)
import atexit
atexit.register(lambda: subprocess.run(["git", "-C", "/repo", "worktree", "remove", "--force", wt]))
patch = os.path.join(M, "patch.diff")
readme = open(os.path.join(M, "README.md")).read()

def sh(cmd, cwd, timeout=1200):
    r = subprocess.run(cmd, cwd=cwd, env=env, shell=True, capture_output=True, text=True, timeout=timeout)
    return r.returncode, r.stdout + r.stderr

meta = {"id": mid, "property": mid.split("-")[0], "worktree": wt, "ran": []}
# where does the demo go?
demos = sorted(glob.glob(os.path.join(M, "demo", "*")))
dest = None
for m in re.finditer(r"`?([a-z][a-z/_]*?)/(zz[\w]*_test\.go)`?", readme):
    d = m.group(1)
    if d != "demo" and not d.endswith("/demo") and "MUTANT" not in d:
        dest = d
        break
m2 = re.search(r"(transport/zz\w+)", readme)
if m2:
    dest = m2.group(1)
if not dest and demos:
    pk = re.search(r"^package (\w+)", open(demos[0]).read(), re.M)
    if pk:
        name = pk.group(1).replace("_test", "")
        dest = {"future": "client/future", "flow": "transport/flow"}.get(name, name)
if not dest or not demos:
    print("cannot determine demo destination", dest, demos); sys.exit(2)
pkgdir = os.path.join(wt, dest)
SUITE = "go test -vet=off -count=1 ./packet/ ./topic/ ./session/ ./broker/ ./client/... ./transport/flow/"

def suite_ok(out):
    bad = [l for l in out.splitlines() if l.startswith("FAIL") or l.startswith("--- FAIL")]
    bad = [l for l in bad if "ExampleClient" not in l and l.strip() not in ("FAIL", "FAIL\tgithub.com/256dpi/gomqtt/client") and "gomqtt/client\t" not in l]
    return not bad, bad

def run_demo():
    os.makedirs(pkgdir, exist_ok=True)
    for d in demos:
        shutil.copy(d, pkgdir)
    names = []
    for d in demos:
        names += re.findall(r"^func (Test\w+)\(", open(d).read(), re.M)
    pat = "^(" + "|".join(names) + ")$" if names else "."
    rc, out = sh("go test -vet=off -count=1 -run '%s' ./%s/" % (pat, dest), wt)
    for d in demos:
        try: os.remove(os.path.join(pkgdir, os.path.basename(d)))
        except OSError: pass
    if dest.startswith("transport/zz"):
        shutil.rmtree(pkgdir, ignore_errors=True)
    return rc, out

sh("git checkout -- .", wt)
rc, out = sh("git apply " + patch, wt)
if rc != 0:
    print("patch does not apply:", out); sys.exit(2)
rc, out = sh("go build ./...", wt)
meta["builds"] = rc == 0
rc, out = sh(SUITE, wt)
ok, bad = suite_ok(out)
if not ok:
    # a few client tests are timing-flaky under load: a test that fails is rerun
    # alone (three times); the suite counts as green if every failing test then
    # passes each time
    names = sorted(set(re.findall(r"^--- FAIL: (Test\w+)", out, re.M)))
    pkgs = sorted(set(re.findall(r"^FAIL\t(github.com/256dpi/gomqtt/\S+)", out, re.M)))
    if names and pkgs:
        pat = "^(" + "|".join(names) + ")$"
        rel = " ".join("./" + p_.split("gomqtt/", 1)[1] + "/" for p_ in pkgs)
        rc2, out2 = sh("go test -vet=off -count=3 -run '%s' %s" % (pat, rel), wt)
        if rc2 == 0:
            ok = True
            meta["suite_flaky_reruns"] = names
meta["suite_green_with_mutant"] = ok
meta["suite_notes"] = bad[:5]
rc, out = run_demo()
meta["demo_fails_with_mutant"] = rc != 0
meta["demo_with_mutant_tail"] = out[-600:]
sh("git checkout -- .", wt)
rc, out = run_demo()
meta["demo_passes_without_mutant"] = rc == 0
if rc != 0:
    meta["demo_clean_tail"] = out[-600:]
confirmed = meta["builds"] and meta["suite_green_with_mutant"] and meta["demo_fails_with_mutant"] and meta["demo_passes_without_mutant"]
meta["confirmed"] = confirmed
print("confirmed:", confirmed, {k: meta[k] for k in ("builds", "suite_green_with_mutant", "demo_fails_with_mutant", "demo_passes_without_mutant")})
# run the checks against /repo with the patch applied
meta["checks"] = {}
if confirmed:
    rc, out = sh("git -C /repo status --short", "/repo")
    if out.strip():
        print("/repo is not clean, refusing"); sys.exit(2)
    rc, out = sh("git -C /repo apply " + patch, "/repo")
    try:
        for c in checks:
            t0 = time.time()
            rc, out = sh("rm -rf replays; bin/simcheck run %s --tier quick" % c, ROOT, timeout=3600)
            viol = [l for l in out.splitlines() if l.startswith("VIOLATION")]
            rules = sorted(set(re.findall(r"^  (C\d+\.[\w\-]+ key=.*)$", out, re.M)))
            meta["checks"][c] = {"exit": rc, "violations": len(viol), "rules": rules[:8], "wall_s": round(time.time() - t0, 1)}
            meta["ran"].append("bin/simcheck run %s --tier quick  -> exit %d" % (c, rc))
            print(" ", c, "exit", rc, rules[:4])
    finally:
        sh("git -C /repo checkout -- .", "/repo")
        sh("rm -rf replays", ROOT)
meta["detected_by"] = [c for c, v in meta["checks"].items() if v["exit"] == 1]
dst = os.path.join(OUTROOT, mid)
os.makedirs(dst, exist_ok=True)
shutil.copy(patch, dst)
shutil.rmtree(os.path.join(dst, "demo"), ignore_errors=True)
shutil.copytree(os.path.join(M, "demo"), os.path.join(dst, "demo"))
shutil.copy(os.path.join(M, "README.md"), os.path.join(dst, "AGENT_README.md"))
first = [l for l in readme.splitlines() if l.strip()][:1]
meta["title"] = first[0].lstrip("# ") if first else ""
meta["demo_destination"] = dest
json.dump(meta, open(os.path.join(dst, "meta.json"), "w"), indent=1)
print("stored", dst, "detected_by", meta["detected_by"])
