#!/bin/bash
export SEEDED_OUT=/verif/seeded
T=tools/evalmutant.py
python3 $T /tmp/mut/wt-C20 MUTANT1 C20-m1 C20 C12
python3 $T /tmp/mut/wt-C20 MUTANT2 C20-m2 C20
python3 $T /tmp/mut/wt-C10 MUTANT1 C10-m1 C10
python3 $T /tmp/mut/wt-C03 MUTANT1 C03-m1 C03
python3 $T /tmp/mut/wt-C03 MUTANT2 C03-m2 C03 C19
python3 $T /tmp/mut/wt-C16 MUTANT2 C16-m2 C16
python3 $T /tmp/mut/wt-C17 MUTANT1 C17-m1 C17
python3 $T /tmp/mut/wt-C17 MUTANT2 C17-m2 C17 C05
python3 $T /tmp/mut/wt-C18 MUTANT1 C18-m1 C18
