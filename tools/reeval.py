#!/usr/bin/env python3
"""reeval.py [id-prefix ...]: regression sweep over the stored seeded changes.

For every /verif/seeded/<id>/ (or those whose id starts with one of the given
prefixes) the stored patch is applied to /repo, the checks that were run for it
before (and the check of its own property) are run in the quick tier, /repo is
reverted, and meta.json's "checks"/"detected_by"/"ran" are rewritten. The
confirmation fields (suite green, demo fails) are kept from the first
evaluation: the patch has not changed.
Run it from the snapshot (vp run) with SEEDED_OUT=/verif/seeded."""
import sys, os, re, json, subprocess, glob, time
ROOT = os.path.dirname(os.path.dirname(os.path.abspath(__file__)))
OUT = os.environ.get("SEEDED_OUT", os.path.join(ROOT, "seeded"))
env = dict(os.environ, GOFLAGS="-mod=mod", GOPROXY="off", GOSUMDB="off")
only, extra = [], {}
for a in sys.argv[1:]:
    # "C08-m7+C06+C15" restricts the sweep to that id and adds checks to its list;
    # "+C08-m7+C06" only adds the checks (the sweep stays complete)
    keep = not a.startswith("+")
    parts = a.lstrip("+").split("+")
    if keep:
        only.append(parts[0])
    extra.setdefault(parts[0], []).extend(parts[1:])

def sh(cmd, cwd, timeout=3600):
    r = subprocess.run(cmd, cwd=cwd, env=env, shell=True, capture_output=True, text=True, timeout=timeout)
    return r.returncode, r.stdout + r.stderr

rc, out = sh("git -C /repo status --short", "/repo")
if out.strip():
    print("/repo is not clean, refusing"); sys.exit(2)
for d in sorted(glob.glob(os.path.join(OUT, "*"))):
    mp, pp = os.path.join(d, "meta.json"), os.path.join(d, "patch.diff")
    if not (os.path.exists(mp) and os.path.exists(pp)):
        continue
    meta = json.load(open(mp))
    mid = meta["id"]
    if only and not any(mid.startswith(p) for p in only):
        continue
    checks = list(meta.get("checks", {}).keys())
    if meta["property"] not in checks:
        checks.insert(0, meta["property"])
    for pre, ex in extra.items():
        if mid.startswith(pre):
            checks += [c for c in ex if c not in checks]
    rc, out = sh("git -C /repo apply " + pp, "/repo")
    if rc != 0:
        print(mid, "patch does not apply any more:", out.strip()[:200])
        meta["applies"] = False
        json.dump(meta, open(mp, "w"), indent=1)
        continue
    meta["applies"] = True
    meta["checks"], meta["ran"] = {}, []
    try:
        for c in checks:
            t0 = time.time()
            rc, out = sh("rm -rf replays; bin/simcheck run %s --tier quick" % c, ROOT)
            viol = [l for l in out.splitlines() if l.startswith("VIOLATION")]
            rules = sorted(set(re.findall(r"^  (C\d+\.[\w\-]+ key=.*)$", out, re.M)))
            meta["checks"][c] = {"exit": rc, "violations": len(viol), "rules": rules[:8], "wall_s": round(time.time() - t0, 1)}
            meta["ran"].append("bin/simcheck run %s --tier quick  -> exit %d" % (c, rc))
    finally:
        sh("git -C /repo checkout -- .", "/repo")
        sh("rm -rf replays", ROOT)
    meta["detected_by"] = [c for c, v in meta["checks"].items() if v["exit"] == 1]
    meta["reevaluated_at_repo"] = sh("git -C /repo rev-parse --short HEAD", "/repo")[1].strip()
    json.dump(meta, open(mp, "w"), indent=1)
    print(mid, "detected_by", meta["detected_by"], {c: v["exit"] for c, v in meta["checks"].items()}, flush=True)
