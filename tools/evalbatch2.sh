#!/bin/bash
# evaluates the second wave of sub-agent mutants (run from a snapshot via vp run)
export SEEDED_OUT=/verif/seeded
T=tools/evalmutant.py
python3 $T /tmp/mut/wt-C19 MUTANT1 C19-m1 C19
python3 $T /tmp/mut/wt-C19 MUTANT2 C19-m2 C19 C03
python3 $T /tmp/mut/wt-C16 MUTANT1 C16-m1 C16 C08
python3 $T /tmp/mut/wt-C16 MUTANT2 C16-m2 C16
python3 $T /tmp/mut/wt-C17 MUTANT1 C17-m1 C17
python3 $T /tmp/mut/wt-C17 MUTANT2 C17-m2 C17 C05
python3 $T /tmp/mut/wt-C14 MUTANT1 C14-m1 C14 C12
python3 $T /tmp/mut/wt-C14 MUTANT2 C14-m2 C14
python3 $T /tmp/mut/wt-C12 MUTANT1 C12-m1 C12
python3 $T /tmp/mut/wt-C12 MUTANT2 C12-m2 C12
python3 $T /tmp/mut/wt-C15 MUTANT1 C15-m1 C15 C18
python3 $T /tmp/mut/wt-C15 MUTANT2 C15-m2 C15
