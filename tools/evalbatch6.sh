#!/bin/bash
export SEEDED_OUT=/verif/seeded
T=tools/evalmutant.py
python3 $T /tmp/mut/wt-C09 MUTANT3 C09-m3 C09
python3 $T /tmp/mut/wt-C14 MUTANT4 C14-m4 C14
python3 $T /tmp/mut/wt-C16 MUTANT3 C16-m3 C16 C15
python3 $T /tmp/mut/wt-C17 MUTANT3 C17-m3 C17
python3 $T /tmp/mut/wt-C12 MUTANT3 C12-m3 C12
python3 $T /tmp/mut/wt-C07 MUTANT3 C07-m3 C07 C20
python3 $T /tmp/mut/wt-C07 MUTANT4 C07-m4 C07 C13
python3 $T /tmp/mut/wt-C08 MUTANT3 C08-m3 C08 C13
python3 $T /tmp/mut/wt-C08 MUTANT4 C08-m4 C08 C07
python3 $T /tmp/mut/wt-C10 MUTANT3 C10-m3 C10
python3 $T /tmp/mut/wt-C10 MUTANT4 C10-m4 C10 C09
python3 $T /tmp/mut/wt-C13 MUTANT3 C13-m3 C13
python3 $T /tmp/mut/wt-C13 MUTANT4 C13-m4 C13 C08
python3 $T /tmp/mut/wt-C19 MUTANT3 C19-m3 C19
python3 $T /tmp/mut/wt-C19 MUTANT4 C19-m4 C19
python3 $T /tmp/mut/wt-C03 MUTANT3 C03-m3 C03 C19
python3 $T /tmp/mut/wt-C03 MUTANT4 C03-m4 C03
