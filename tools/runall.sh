#!/bin/bash
# runs every registered quick (or $1=thorough) check against /repo and prints one line each
tier=${1:-quick}
cd "$(dirname "$0")/.."
rm -rf replays
fail=0
for c in $(python3 -c "import sys;sys.path.insert(0,'bin');from checks import CHECKS;print(' '.join(sorted(CHECKS)))"); do
  out=$(bin/simcheck run $c --tier $tier 2>&1); rc=$?
  echo "$c exit=$rc $(echo "$out" | grep '^simcheck' | tail -1)"
  echo "$out" | grep '^VIOLATION\|^KNOWN-FINDING\|TROUBLE' | cut -c1-200
  [ $rc -ne 0 ] && fail=1
done
exit $fail
