#!/bin/bash
export SEEDED_OUT=/verif/seeded
T=tools/evalmutant.py
[ -d /tmp/mut/w5-C07/MUTANT1 ] && python3 $T /tmp/mut/w5-C07 MUTANT1 C07-m9 C07 C08
[ -d /tmp/mut/w5-C07/MUTANT2 ] && python3 $T /tmp/mut/w5-C07 MUTANT2 C07-m10 C07 C08
[ -d /tmp/mut/w5-C12/MUTANT1 ] && python3 $T /tmp/mut/w5-C12 MUTANT1 C12-m9 C12 C13 C14
[ -d /tmp/mut/w5-C12/MUTANT2 ] && python3 $T /tmp/mut/w5-C12 MUTANT2 C12-m10 C12 C13 C14
[ -d /tmp/mut/w5-C13/MUTANT1 ] && python3 $T /tmp/mut/w5-C13 MUTANT1 C13-m9 C13 C14 C12
[ -d /tmp/mut/w5-C13/MUTANT2 ] && python3 $T /tmp/mut/w5-C13 MUTANT2 C13-m10 C13 C14 C12
[ -d /tmp/mut/w5-C16/MUTANT1 ] && python3 $T /tmp/mut/w5-C16 MUTANT1 C16-m9 C16 C08 C15
[ -d /tmp/mut/w5-C16/MUTANT2 ] && python3 $T /tmp/mut/w5-C16 MUTANT2 C16-m10 C16 C08 C15
[ -d /tmp/mut/w5-C17/MUTANT1 ] && python3 $T /tmp/mut/w5-C17 MUTANT1 C17-m9 C17 C09
[ -d /tmp/mut/w5-C17/MUTANT2 ] && python3 $T /tmp/mut/w5-C17 MUTANT2 C17-m10 C17 C09
[ -d /tmp/mut/w5-C19/MUTANT1 ] && python3 $T /tmp/mut/w5-C19 MUTANT1 C19-m9 C19 C03
[ -d /tmp/mut/w5-C19/MUTANT2 ] && python3 $T /tmp/mut/w5-C19 MUTANT2 C19-m10 C19 C03
[ -d /tmp/mut/w5-C20/MUTANT1 ] && python3 $T /tmp/mut/w5-C20 MUTANT1 C20-m9 C20 C14
[ -d /tmp/mut/w5-C20/MUTANT2 ] && python3 $T /tmp/mut/w5-C20 MUTANT2 C20-m10 C20 C14
[ -d /tmp/mut/w5-C10/MUTANT1 ] && python3 $T /tmp/mut/w5-C10 MUTANT1 C10-m9 C10 C09
[ -d /tmp/mut/w5-C10/MUTANT2 ] && python3 $T /tmp/mut/w5-C10 MUTANT2 C10-m10 C10 C09
exit 0
