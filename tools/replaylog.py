#!/usr/bin/env python3
"""replaylog.py <replay.json> [grep]: replay with the event log kept and print it."""
import sys, json, os, subprocess, tempfile, re
doc = json.load(open(sys.argv[1]))
cid = doc["property"]
V = os.path.dirname(os.path.dirname(os.path.abspath(__file__)))
binary = V + "/build/worker-%s%s.test" % (cid, "-race" if doc.get("build") == "race" else "")
d = tempfile.mkdtemp(dir=V + "/build/tmp")
json.dump(doc["plan"], open(d + "/p", "w"))
json.dump({"check": cid, "mode": "replay", "plan_file": d + "/p", "out": d + "/o", "keep_log": True}, open(d + "/j", "w"))
env = dict(os.environ, SIM_JOB=d + "/j", GOMAXPROCS="1")
r = subprocess.run([binary, "-test.run", "^TestWorker$"], env=env, capture_output=True, text=True)
for l in open(d + "/o"):
    if l.startswith("RESULT "):
        res = json.loads(l[7:])
        for x in res.get("log_tail", []):
            if len(sys.argv) < 3 or re.search(sys.argv[2], x):
                print(x)
        print(json.dumps(res.get("violations"), indent=1)[:3000])
if r.returncode != 0:
    print(r.stderr[-3000:])
