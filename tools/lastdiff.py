#!/usr/bin/env python3
"""lastdiff.py <binary> <check> <listA> <listB>: compare the log of the LAST seed of two batches."""
import sys, json, os, subprocess, tempfile
binary, cid = sys.argv[1], sys.argv[2]
logs = []
for arg in sys.argv[3:5]:
    seeds = [int(x) for x in arg.split(",")]
    d = tempfile.mkdtemp(dir="/verif/build/tmp")
    job = {"check": cid, "mode": "batch", "tier": "quick", "seeds": seeds, "out": d + "/o", "keep_log": True}
    json.dump(job, open(d + "/j", "w"))
    env = dict(os.environ, SIM_JOB=d + "/j", GOMAXPROCS="1")
    subprocess.run([binary, "-test.run", "^TestWorker$"], env=env, capture_output=True)
    res = [json.loads(l[7:]) for l in open(d + "/o") if l.startswith("RESULT ")]
    logs.append(res[-1])
a, b = logs
print(a["hash"], b["hash"], "yields", a["yields"], b["yields"])
l1, l2 = a.get("log_tail", []), b.get("log_tail", [])
for i, (x, y) in enumerate(zip(l1, l2)):
    if x != y:
        print("first difference at line", i)
        for z in l1[max(0, i - 8):i + 4]: print("  A", z)
        for z in l2[max(0, i - 8):i + 4]: print("  B", z)
        break
else:
    print("prefix equal, lengths", len(l1), len(l2))
