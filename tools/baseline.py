#!/usr/bin/env python3
"""Run gomqtt's own test suite (guard tag off, default toolchain) and compare
with the pinned baseline: every test in BASELINE.json stable_pass must pass."""
import json, subprocess, sys, os
base = json.load(open("/root/.vp/BASELINE.json"))
want = set(base["stable_pass"])
env = dict(os.environ, GOFLAGS="-mod=mod", GOPROXY="off", GOSUMDB="off")
p = subprocess.run(["go", "test", "-json", "-vet=off", "-count=1", "-timeout", "25m", "./..."],
                   cwd="/repo", env=env, capture_output=True, text=True)
passed, failed = set(), set()
for line in p.stdout.splitlines():
    try:
        e = json.loads(line)
    except ValueError:
        continue
    if e.get("Test") and e.get("Action") in ("pass", "fail"):
        name = "%s::%s" % (e["Package"], e["Test"])
        (passed if e["Action"] == "pass" else failed).add(name)
missing = sorted(want - passed)
print("baseline: %d/%d stable tests pass; %d other failures" % (len(want & passed), len(want), len(failed - want)))
for m in missing[:40]:
    print("  NOT PASSING:", m)
sys.exit(1 if missing else 0)
