#!/bin/bash
export SEEDED_OUT=/verif/seeded
T=tools/evalmutant.py
python3 $T /tmp/mut/w3-C03 MUTANT1 C03-m5 C03 C19
python3 $T /tmp/mut/w3-C03 MUTANT2 C03-m6 C03 C19
python3 $T /tmp/mut/w3-C05 MUTANT1 C05-m3 C05 
python3 $T /tmp/mut/w3-C05 MUTANT2 C05-m4 C05 
python3 $T /tmp/mut/w3-C06 MUTANT1 C06-m3 C06 C11
python3 $T /tmp/mut/w3-C06 MUTANT2 C06-m4 C06 C11
python3 $T /tmp/mut/w3-C07 MUTANT1 C07-m5 C07 C20
python3 $T /tmp/mut/w3-C07 MUTANT2 C07-m6 C07 C20
python3 $T /tmp/mut/w3-C08 MUTANT1 C08-m5 C08 C15
python3 $T /tmp/mut/w3-C08 MUTANT2 C08-m6 C08 C15
python3 $T /tmp/mut/w3-C09 MUTANT1 C09-m5 C09 C17
python3 $T /tmp/mut/w3-C09 MUTANT2 C09-m6 C09 C17
python3 $T /tmp/mut/w3-C10 MUTANT1 C10-m5 C10 C09
python3 $T /tmp/mut/w3-C10 MUTANT2 C10-m6 C10 C09
python3 $T /tmp/mut/w3-C11 MUTANT1 C11-m3 C11 C06
python3 $T /tmp/mut/w3-C11 MUTANT2 C11-m4 C11 C06
python3 $T /tmp/mut/w3-C12 MUTANT1 C12-m5 C12 C14
python3 $T /tmp/mut/w3-C12 MUTANT2 C12-m6 C12 C14
python3 $T /tmp/mut/w3-C13 MUTANT1 C13-m5 C13 C12
python3 $T /tmp/mut/w3-C13 MUTANT2 C13-m6 C13 C12
python3 $T /tmp/mut/w3-C14 MUTANT1 C14-m5 C14 C13
python3 $T /tmp/mut/w3-C14 MUTANT2 C14-m6 C14 C13
python3 $T /tmp/mut/w3-C15 MUTANT1 C15-m3 C15 C08
python3 $T /tmp/mut/w3-C15 MUTANT2 C15-m4 C15 C08
python3 $T /tmp/mut/w3-C16 MUTANT1 C16-m5 C16 C08
python3 $T /tmp/mut/w3-C16 MUTANT2 C16-m6 C16 C08
python3 $T /tmp/mut/w3-C17 MUTANT1 C17-m5 C17 C09
python3 $T /tmp/mut/w3-C17 MUTANT2 C17-m6 C17 C09
python3 $T /tmp/mut/w3-C18 MUTANT1 C18-m3 C18 
python3 $T /tmp/mut/w3-C18 MUTANT2 C18-m4 C18 
python3 $T /tmp/mut/w3-C19 MUTANT1 C19-m5 C19 C03
python3 $T /tmp/mut/w3-C19 MUTANT2 C19-m6 C19 C03
python3 $T /tmp/mut/w3-C20 MUTANT1 C20-m5 C20 C14
python3 $T /tmp/mut/w3-C20 MUTANT2 C20-m6 C20 C14
