#!/bin/bash
export SEEDED_OUT=/verif/seeded
T=tools/evalmutant.py
[ -d /tmp/mut/w4-C03/MUTANT1 ] && python3 $T /tmp/mut/w4-C03 MUTANT1 C03-m7 C03 C19
[ -d /tmp/mut/w4-C03/MUTANT2 ] && python3 $T /tmp/mut/w4-C03 MUTANT2 C03-m8 C03 C19
[ -d /tmp/mut/w4-C06/MUTANT1 ] && python3 $T /tmp/mut/w4-C06 MUTANT1 C06-m5 C06 C11
[ -d /tmp/mut/w4-C06/MUTANT2 ] && python3 $T /tmp/mut/w4-C06 MUTANT2 C06-m6 C06 C11
[ -d /tmp/mut/w4-C07/MUTANT1 ] && python3 $T /tmp/mut/w4-C07 MUTANT1 C07-m7 C07 C08
[ -d /tmp/mut/w4-C07/MUTANT2 ] && python3 $T /tmp/mut/w4-C07 MUTANT2 C07-m8 C07 C08
[ -d /tmp/mut/w4-C08/MUTANT1 ] && python3 $T /tmp/mut/w4-C08 MUTANT1 C08-m7 C08 C15 C16
[ -d /tmp/mut/w4-C08/MUTANT2 ] && python3 $T /tmp/mut/w4-C08 MUTANT2 C08-m8 C08 C15 C16
[ -d /tmp/mut/w4-C09/MUTANT1 ] && python3 $T /tmp/mut/w4-C09 MUTANT1 C09-m7 C09 C17 C10
[ -d /tmp/mut/w4-C09/MUTANT2 ] && python3 $T /tmp/mut/w4-C09 MUTANT2 C09-m8 C09 C17 C10
[ -d /tmp/mut/w4-C10/MUTANT1 ] && python3 $T /tmp/mut/w4-C10 MUTANT1 C10-m7 C10 C09
[ -d /tmp/mut/w4-C10/MUTANT2 ] && python3 $T /tmp/mut/w4-C10 MUTANT2 C10-m8 C10 C09
[ -d /tmp/mut/w4-C11/MUTANT1 ] && python3 $T /tmp/mut/w4-C11 MUTANT1 C11-m5 C11 C06 C12
[ -d /tmp/mut/w4-C11/MUTANT2 ] && python3 $T /tmp/mut/w4-C11 MUTANT2 C11-m6 C11 C06 C12
[ -d /tmp/mut/w4-C12/MUTANT1 ] && python3 $T /tmp/mut/w4-C12 MUTANT1 C12-m7 C12 C13 C14
[ -d /tmp/mut/w4-C12/MUTANT2 ] && python3 $T /tmp/mut/w4-C12 MUTANT2 C12-m8 C12 C13 C14
[ -d /tmp/mut/w4-C13/MUTANT1 ] && python3 $T /tmp/mut/w4-C13 MUTANT1 C13-m7 C13 C12 C08
[ -d /tmp/mut/w4-C13/MUTANT2 ] && python3 $T /tmp/mut/w4-C13 MUTANT2 C13-m8 C13 C12 C08
[ -d /tmp/mut/w4-C14/MUTANT1 ] && python3 $T /tmp/mut/w4-C14 MUTANT1 C14-m7 C14 C13 C20
[ -d /tmp/mut/w4-C14/MUTANT2 ] && python3 $T /tmp/mut/w4-C14 MUTANT2 C14-m8 C14 C13 C20
[ -d /tmp/mut/w4-C15/MUTANT1 ] && python3 $T /tmp/mut/w4-C15 MUTANT1 C15-m5 C15 C08 C16
[ -d /tmp/mut/w4-C15/MUTANT2 ] && python3 $T /tmp/mut/w4-C15 MUTANT2 C15-m6 C15 C08 C16
[ -d /tmp/mut/w4-C16/MUTANT1 ] && python3 $T /tmp/mut/w4-C16 MUTANT1 C16-m7 C16 C08 C15
[ -d /tmp/mut/w4-C16/MUTANT2 ] && python3 $T /tmp/mut/w4-C16 MUTANT2 C16-m8 C16 C08 C15
[ -d /tmp/mut/w4-C17/MUTANT1 ] && python3 $T /tmp/mut/w4-C17 MUTANT1 C17-m7 C17 C09
[ -d /tmp/mut/w4-C17/MUTANT2 ] && python3 $T /tmp/mut/w4-C17 MUTANT2 C17-m8 C17 C09
[ -d /tmp/mut/w4-C19/MUTANT1 ] && python3 $T /tmp/mut/w4-C19 MUTANT1 C19-m7 C19 C03
[ -d /tmp/mut/w4-C19/MUTANT2 ] && python3 $T /tmp/mut/w4-C19 MUTANT2 C19-m8 C19 C03
[ -d /tmp/mut/w4-C20/MUTANT1 ] && python3 $T /tmp/mut/w4-C20 MUTANT1 C20-m7 C20 C14
[ -d /tmp/mut/w4-C20/MUTANT2 ] && python3 $T /tmp/mut/w4-C20 MUTANT2 C20-m8 C20 C14
exit 0
