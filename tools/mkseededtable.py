#!/usr/bin/env python3
"""Rewrites the seeded-change table in DESIGN.md from seeded/*/meta.json."""
import json, glob, os, re
V = os.path.dirname(os.path.dirname(os.path.abspath(__file__)))
rows = []
for f in sorted(glob.glob(os.path.join(V, "seeded", "*", "meta.json"))):
    m = json.load(open(f))
    det = []
    for c, v in sorted(m.get("checks", {}).items()):
        if v.get("exit") == 1:
            det.append("%s (%s)" % (c, "; ".join(r.split(" key=")[0].split(".", 1)[-1] for r in v.get("rules", [])[:3])))
    missed = [c for c, v in sorted(m.get("checks", {}).items()) if v.get("exit") == 0]
    note = ""
    np_ = os.path.join(os.path.dirname(f), "NOTE.md")
    if os.path.exists(np_):
        note = open(np_).read().strip().replace("|", "/").replace("\n", " ")
    rows.append("| %s | %s | %s | %s | %s | %s |" % (
        m["id"], m.get("title", "").replace("|", "/")[:110], "yes" if m.get("confirmed") else "NO",
        ", ".join(det) or "-", ", ".join(missed) or "-", note))
hdr = ("Changes produced by fresh sub-agents that saw only the property text and a scratch worktree (ids `Cxx-mN`), plus a few made by hand "
       "(`-hand-`). Each was confirmed in a scratch worktree (builds, baseline suite green, its demonstration fails with it and passes "
       "without it), then applied to /repo, the named quick checks were run, and /repo was restored. `meta.json` in each directory has the details.\n\n"
       "| id | change | confirmed | detected by (rules) | ran clean (missed) | note |\n|---|---|---|---|---|---|\n")
# summary
metas = [json.load(open(f)) for f in sorted(glob.glob(os.path.join(V, "seeded", "*", "meta.json")))]
conf = [m for m in metas if m.get("confirmed")]
own = [m for m in conf if m["property"] in m.get("detected_by", [])]
other = [m for m in conf if m.get("detected_by") and m["property"] not in m["detected_by"]]
none = [m for m in conf if not m.get("detected_by")]
summary = ("\n**Summary of the last regression sweep** (`tools/reeval.py`, every stored change applied to /repo in turn, quick tier): "
           "%d confirmed changes; %d detected by the check of their own property, %d only by the check of a neighbouring property (%s), "
           "%d by none (%s - each with the reason in the note column).\n"
           % (len(conf), len(own), len(other), ", ".join("%s by %s" % (m["id"], "/".join(m["detected_by"])) for m in other),
              len(none), ", ".join(m["id"] for m in none)))
table = hdr + "\n".join(rows) + "\n" + summary
p = os.path.join(V, "DESIGN.md")
s = open(p).read()
s = re.sub(r"<!-- SEEDED-TABLE-BEGIN -->.*?<!-- SEEDED-TABLE-END -->", "<!-- SEEDED-TABLE-BEGIN -->\n" + table + "<!-- SEEDED-TABLE-END -->", s, flags=re.S)
open(p, "w").write(s)
print(len(rows), "rows")
