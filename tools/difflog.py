#!/usr/bin/env python3
"""difflog.py <worker-binary> <check> <seed> [n]: run one seed n times in fresh
processes with the event log kept and show the first difference."""
import sys, json, os, subprocess, tempfile
binary, cid, seed = sys.argv[1], sys.argv[2], int(sys.argv[3])
n = int(sys.argv[4]) if len(sys.argv) > 4 else 4
logs = []
for i in range(n):
    d = tempfile.mkdtemp(dir="/verif/build/tmp")
    job = {"check": cid, "mode": "batch", "tier": "quick", "seeds": [seed], "out": d + "/o", "keep_log": True}
    json.dump(job, open(d + "/j", "w"))
    env = dict(os.environ, SIM_JOB=d + "/j", GOMAXPROCS="1")
    subprocess.run([binary, "-test.run", "^TestWorker$"], env=env, capture_output=True)
    res = [json.loads(l[7:]) for l in open(d + "/o") if l.startswith("RESULT ")]
    logs.append([ (r["hash"], r.get("log_tail", [])) for r in res])
ref = logs[0]
for k, other in enumerate(logs[1:], 1):
    for (h1, l1), (h2, l2) in zip(ref, other):
        if h1 != h2:
            print("run 0 vs run %d differ: %s %s" % (k, h1, h2))
            for i, (a, b) in enumerate(zip(l1, l2)):
                if a != b:
                    print("first difference at line", i)
                    for x in l1[max(0, i - 6):i + 3]: print("  A", x)
                    for x in l2[max(0, i - 6):i + 3]: print("  B", x)
                    break
            else:
                print("common prefix equal; lengths", len(l1), len(l2))
            sys.exit(1)
print("all", n, "runs equal:", [h for h, _ in ref])
