"""Per-check configuration of the simcheck driver: budgets and the texts that
go into the evidence files. Counts in the evidence are always measured."""

REAL_LIB = "topic.Tree, session.IDCounter, session.PacketStore/MemorySession (unmodified /repo code); Go scheduler, sync.Mutex/RWMutex (simrt-patched only in how they choose among equals)"
STUB_LIB = "none: the callers are simulator actor goroutines"

CHECKS = {
    "C05": {
        "level": "exploration",
        "race": True,
        "quick": {"runs": 24000, "race_runs": 3000, "budget_s": 40, "minimise_s": 30},
        "thorough": {"runs": 1600000, "race_runs": 120000, "budget_s": 900, "minimise_s": 120},
        "rule": "seed -> (mode, key universe subset, op history). modes: sequential histories of 1..300 ops on a filter tree or a name tree, every query of the universe compared with the map model after every mutation; concurrent histories of 2-16 actor goroutines with seeded pre-emption at every RWMutex acquisition, checked with porcupine against the map model, plus the snapshot rule. A run is non-trivial when it has >=2 mutations (sequential) or >=1 pair of overlapping operations (concurrent); distinct = distinct (actor order, overlap count) / event-log fingerprints",
        "probes": ["overlapping_ops", "lock_yields"],
        "real": REAL_LIB, "stub": STUB_LIB,
        "assumptions": ["values are small ints compared by ==", "topic names are free of wildcards and U+0000 when used as names",
                        "porcupine v1.3.0 and the Go race detector are trusted", "one P: data races are found by the happens-before detector in the -race build, not by torn values"],
    },
    "C18": {
        "level": "exploration",
        "race": True,
        "quick": {"runs": 6000, "race_runs": 1200, "budget_s": 40, "minimise_s": 30},
        "thorough": {"runs": 4400, "race_runs": 60000, "budget_s": 900, "minimise_s": 120},
        "rule": "seed -> mode: concurrent NextID/Reset by 2-16 actors from start values biased to the 16-bit wrap (successor-multiset oracle + porcupine), sequential MemorySession histories over ids {0,1,2,3,65535} x 2 directions x 7 packet kinds against a two-map model, concurrent store histories (porcupine, partitioned by direction), and a sweep that allocates 65535 ids from each start state of a block and checks non-zero/distinct/successor order (thorough: blocks cover all 65536 states). Non-trivial = overlapping operations (concurrent), >=2 saves (sequential), every sweep block",
        "probes": ["overlapping_ops", "lock_yields", "wrap_starts", "counter_states_swept"],
        "real": REAL_LIB, "stub": STUB_LIB,
        "assumptions": ["porcupine v1.3.0 and the Go race detector are trusted"],
    },
}
