"""Per-check configuration of the simcheck driver: budgets and the texts that
go into the evidence files. Counts in the evidence are always measured."""

REAL_LIB = "topic.Tree, session.IDCounter, session.PacketStore/MemorySession (unmodified /repo code); Go scheduler, sync.Mutex/RWMutex (simrt-patched only in how they choose among equals)"
STUB_LIB = "none: the callers are simulator actor goroutines"

REAL_CONN = "packet.Stream/Encoder/Decoder, transport.BaseConn/NetConn, mercury.Writer with its flush timer (virtual clock), bufio (unmodified /repo and module code)"
STUB_CONN = "the byte transport below net.Conn (sim/simnet: in-memory link with simulator-decided delivery, fragmentation, truncation, cut, per-call failures)"

CHECKS = {
    "C03": {
        "level": "exploration",
        "level_text": "Seeded search over packet sequences x fragmentations x flush-timer timings of the real Stream/BaseConn/NetConn pair on a simulated byte link, with every split point and truncation offset of short streams enumerated; oracles on the wire bytes and on the received packet list. Sampling plus an exhaustive sub-space, not proof.",
        "level_note": "Trusts the packet codec's Encode as the definition of a packet's bytes, the simrt overlay and synctest's virtual clock; the WebSocket carrier is not yet part of this check.",
        "technique": "deterministic simulation: simulated byte transport with seeded fragmentation/truncation + virtual flush timer + wire/packet-list oracles; split points enumerated for short streams",
        "quick": {"runs": 16000, "budget_s": 45, "minimise_s": 30},
        "thorough": {"runs": 1200000, "budget_s": 1000, "minimise_s": 120},
        "rule": "seed -> packet sequence (all 14 types, sizes biased to 0/1/127/128/4096+-8/16383/16384/read limit +-), async/sync flag per send, flush delay, chunking policy, read-size bound; the scheduler interleaves sends, deliveries of 1..k bytes, flush-timer firings, close. One seed class in eight builds a stream <=64 bytes and ENUMERATES every split point and every truncation offset (thorough: every pair of split points). Oracles: wire bytes = concatenation of encodings; received list = sent list compared after the whole stream was consumed; read-limit refusal before buffering; truncated stream => error, never a packet; Receive never hangs. Non-trivial = at least one packet sent under a non-trivial fragmentation or >=2 packets; distinct = distinct event-log fingerprints",
        "probes": ["enumerated_splits", "fault_stream_cut", "flush_timer_advances", "oversize_refused", "ended_inside_packet", "packets_over_bufio_size", "async_sends"],
        "real": REAL_CONN, "stub": STUB_CONN,
        "assumptions": ["the packet codec itself (Encode) defines a packet's encoding (C01 is out of scope of simulation)"],
    },
    "C19": {
        "level": "exploration",
        "race": True,
        "level_text": "Seeded interleavings of 1-16 sender goroutines, a receiver and a closer on one real NetConn/BaseConn/Stream over the simulated link, with the k-th Read/Write/Close/SetReadDeadline of the carrier failing (k enumerated over the calls of the fault-free run; quick samples 4 per kind), read-deadline expiry on the virtual clock, and probes after close; run plain and under the race detector. Sampling with enumerated fault positions, not proof.",
        "level_note": "Trusts the simrt overlay, synctest's virtual clock and the Go race detector; the carrier is TCP-like (sim/simnet) - the WebSocket carrier is not exercised by this check.",
        "technique": "deterministic simulation: seeded sender/closer interleavings at lock granularity + carrier-call fault enumeration + virtual-clock deadlines + wire/history oracles + race detector",
        "quick": {"runs": 5000, "race_runs": 700, "budget_s": 40, "minimise_s": 30},
        "thorough": {"runs": 400000, "race_runs": 40000, "budget_s": 900, "minimise_s": 120},
        "rule": "seed -> (1-16 senders with 1-6 buffered/flushed sends each of sizes 0..9000, flush delay 0..50 ms, close step, read timeout, packets from the peer); every third seed additionally ENUMERATES carrier-call failures (k-th read/write/close/deadline call). Oracles: every packet on the wire is intact, was sent, appears once and in its sender's order; everything accepted before Close is on the wire before the carrier is closed; sends after close/error fail (flushed at once, buffered after the flush delay); Receive returns what had arrived, then fails; no goroutine is still blocked after one virtual hour. Non-trivial = >=2 senders with >=2 sends or a fired fault; distinct = distinct (sender order, overlap count, fault position)",
        "probes": ["overlapping_sends", "fault_read", "fault_write", "fault_close", "fault_deadline", "closes", "timer_advances", "packets_received", "post_close_probes", "sends_failed"],
        "real": REAL_CONN, "stub": STUB_CONN,
        "assumptions": ["a failing carrier Close still closes (as net.Conn implementations do)", "no write-side backpressure: the simulated socket buffer is unbounded"],
    },
    "C06": {
        "level": "exploration",
        "level_text": "Seeded client histories (1-6 peers, overlapping wildcard filters, multi-filter SUBSCRIBEs with differing QoS, all 3x3 QoS combinations, payloads up to 64 KiB) against the real Engine+MemoryBackend over simulated links. Strict mode: after every operation the system is run to quiescence and each peer's newly received PUBLISH packets must equal the prediction of a sequential reference broker exactly. Concurrent mode: peers act without waiting, backend calls are gated and released in seeded order, deliveries are judged against may/must sets from the call intervals observed at the Backend seam. Sampling, not proof.",
        "level_note": "Trusts the reference broker in worlds/brk/c06.go and the 4.7 matcher (written from the MQTT text), the simrt overlay and synctest quiescence detection. Scripted peers acknowledge promptly; queue overflow is outside this check.",
        "technique": "deterministic simulation: real broker over simulated links + scripted peers + sequential reference broker at quiescence + interval-based may/must oracle for concurrent histories",
        "quick": {"runs": 24000, "budget_s": 45, "minimise_s": 40},
        "thorough": {"runs": 600000, "budget_s": 1000, "minimise_s": 150},
        "rule": "seed -> history of connect(clean/unclean, shared ids)/subscribe(1-4 filters)/unsubscribe/publish(QoS 0-2, size 0..64KiB)/disconnect/drop/close items over 1-6 peers; even seeds strict (quiescent after each item), odd seeds concurrent. Non-trivial = >=2 publishes and >=1 delivery; distinct = distinct event-log fingerprints (plan x schedule)",
        "probes": ["publishes", "deliveries", "ambiguous_subscription_overlaps"],
        "real": "broker.Engine, broker.Client (processor/dequeuer/acker goroutines), broker.MemoryBackend, topic.Tree, session.MemorySession, transport.NetConn/BaseConn, packet.Stream, mercury.Writer, tomb - unmodified",
        "stub": "byte transport (sim/simnet), the clients (scripted peers using the real packet codec), probeBackend/faultConn pass-through wrappers, wall clock (virtual)",
        "assumptions": ["peers acknowledge promptly and keep reading", "queues are large enough that MemoryBackend never reports ErrQueueFull in strict mode"],
    },
    "C20": {
        "level": "exploration",
        "level_text": "Seeded packet sequences (length <= 8, all 14 types, arbitrary ids, 1-8 filters, pipelined or not, any fragmentation) towards the real broker; the first-packet position is enumerated over all 14 types x {no, valid, wrong} credentials by the seed. A connection automaton written from the MQTT text judges the replies the peer saw at quiescence and the backend hooks that ran for the connection. Sampling with an enumerated first-packet matrix, not proof.",
        "level_note": "Trusts the automaton in worlds/brk/c20.go, the simrt overlay and synctest quiescence; the peer is a scripted state machine using the real codec.",
        "technique": "deterministic simulation: scripted peer over simulated link + connection-protocol reference automaton + request/response correlation at quiescence",
        "quick": {"runs": 20000, "budget_s": 45, "minimise_s": 40},
        "thorough": {"runs": 1500000, "budget_s": 1000, "minimise_s": 150},
        "rule": "seed -> (even seeds: accepted CONNECT first; odd seeds enumerate first packet type x credential variant, then 0-7 further packets biased to SUBSCRIBE/UNSUBSCRIBE/PINGREQ/PUBLISH, pipelined or settled, chunking); one plan in ten is silence (connect timeout). Non-trivial = a first-packet/refusal/timeout case or >=1 request or an out-of-protocol packet; distinct = distinct event-log fingerprints",
        "probes": ["first_Connect", "first_Publish", "first_Subscribe", "first_silence", "auth_refused", "fatal_Connect", "fatal_Disconnect", "fatal_Pingresp", "requests"],
        "real": "broker.Engine (Accept loop, connect timeout), broker.Client, broker.MemoryBackend, transport.NetConn/BaseConn, packet.Stream - unmodified",
        "stub": "byte transport (sim/simnet), the client (scripted peer), probeBackend/faultConn pass-through wrappers, virtual clock",
        "assumptions": ["packets are well-formed (malformed input is C14's subject)"],
    },
    "C05": {
        "level": "exploration",
        "level_text": "Seeded search over operation histories and over interleavings of 2-16 caller goroutines pre-empted at every lock acquisition by the seeded runtime; every query compared with a map model after every mutation, concurrent histories checked for linearizability with porcupine, result slices checked for later modification, same binary under the race detector. Sampling, not proof.",
        "level_note": "Trusts porcupine v1.3.0, the Go race detector, the simrt overlay of go1.26.8 (determinism self-tested), the 4.7 reference matcher in sim/model.",
        "technique": "deterministic simulation: seeded lock-level interleavings + reference map model + porcupine linearizability + race detector",
        "race": True,
        "quick": {"runs": 24000, "race_runs": 3000, "budget_s": 40, "minimise_s": 30},
        "thorough": {"runs": 1600000, "race_runs": 120000, "budget_s": 900, "minimise_s": 120},
        "rule": "seed -> (mode, key universe subset, op history). modes: sequential histories of 1..300 ops on a filter tree or a name tree, every query of the universe compared with the map model after every mutation; concurrent histories of 2-16 actor goroutines with seeded pre-emption at every RWMutex acquisition, checked with porcupine against the map model, plus the snapshot rule. A run is non-trivial when it has >=2 mutations (sequential) or >=1 pair of overlapping operations (concurrent); distinct = distinct (actor order, overlap count) / event-log fingerprints",
        "probes": ["overlapping_ops", "lock_yields"],
        "real": REAL_LIB, "stub": STUB_LIB,
        "assumptions": ["values are small ints compared by ==", "topic names are free of wildcards and U+0000 when used as names",
                        "porcupine v1.3.0 and the Go race detector are trusted", "one P: data races are found by the happens-before detector in the -race build, not by torn values"],
    },
    "C18": {
        "level": "exploration",
        "level_text": "Seeded interleavings of 2-16 concurrent id allocators around the 16-bit wrap, sequential and concurrent packet-store histories against a two-map model (porcupine), and a sweep over counter start states (all 65536 in the thorough tier).",
        "level_note": "Trusts porcupine v1.3.0, the Go race detector, the simrt overlay.",
        "technique": "deterministic simulation: seeded lock-level interleavings + reference model + porcupine; exhaustive counter-state sweep",
        "race": True,
        "quick": {"runs": 6000, "race_runs": 1200, "budget_s": 40, "minimise_s": 30},
        "thorough": {"runs": 4400, "race_runs": 60000, "budget_s": 900, "minimise_s": 120},
        "rule": "seed -> mode: concurrent NextID/Reset by 2-16 actors from start values biased to the 16-bit wrap (successor-multiset oracle + porcupine), sequential MemorySession histories over ids {0,1,2,3,65535} x 2 directions x 7 packet kinds against a two-map model, concurrent store histories (porcupine, partitioned by direction), and a sweep that allocates 65535 ids from each start state of a block and checks non-zero/distinct/successor order (thorough: blocks cover all 65536 states). Non-trivial = overlapping operations (concurrent), >=2 saves (sequential), every sweep block",
        "probes": ["overlapping_ops", "lock_yields", "wrap_starts", "counter_states_swept"],
        "real": REAL_LIB, "stub": STUB_LIB,
        "assumptions": ["porcupine v1.3.0 and the Go race detector are trusted"],
    },
}
