// Package core holds what every simulated world shares: the PRNG streams that
// are all derived from one seed, the event log with its rolling hash, the
// violation/result records and the bubble runner.
package core

import (
	"encoding/json"
	"fmt"
	"hash/fnv"
	"os"
	"runtime"
	"runtime/debug"
	"sort"
	"strings"
	"testing"
	"testing/synctest"
	"time"

	"verif/sim/rt"
)

/* ---------- PRNG ---------- */

// Rand is splitmix64. Every random decision of the simulator comes from a Rand
// derived from the run's seed; nothing else is consulted.
type Rand struct{ s uint64 }

func mix(z uint64) uint64 {
	z = (z ^ (z >> 30)) * 0xbf58476d1ce4e5b9
	z = (z ^ (z >> 27)) * 0x94d049bb133111eb
	return z ^ (z >> 31)
}

// Derive gives an independent stream seed for (seed, name).
func Derive(seed uint64, name string) uint64 {
	h := fnv.New64a()
	_, _ = h.Write([]byte(name))
	return mix(seed*0x9e3779b97f4a7c15 + h.Sum64() + 0x632be59bd9b4e019)
}

func NewRand(seed uint64) *Rand { return &Rand{s: seed} }

func (r *Rand) Uint64() uint64 {
	r.s += 0x9e3779b97f4a7c15
	return mix(r.s)
}

// Intn returns a value in [0,n); n<=0 yields 0.
func (r *Rand) Intn(n int) int {
	if n <= 1 {
		if n <= 0 {
			return 0
		}
		r.Uint64()
		return 0
	}
	return int(r.Uint64() % uint64(n))
}

// Range returns a value in [lo,hi].
func (r *Rand) Range(lo, hi int) int {
	if hi <= lo {
		return lo
	}
	return lo + r.Intn(hi-lo+1)
}

// Chance is true with probability num/den.
func (r *Rand) Chance(num, den int) bool { return r.Intn(den) < num }

// Pick returns one of the ints.
func (r *Rand) Pick(v ...int) int { return v[r.Intn(len(v))] }

// PickS returns one of the strings.
func (r *Rand) PickS(v ...string) string { return v[r.Intn(len(v))] }

// Weighted picks an index with probability proportional to w[i] (w[i]>=0).
func (r *Rand) Weighted(w []int) int {
	t := 0
	for _, x := range w {
		t += x
	}
	if t <= 0 {
		return r.Intn(len(w))
	}
	k := r.Intn(t)
	for i, x := range w {
		if k < x {
			return i
		}
		k -= x
	}
	return len(w) - 1
}

/* ---------- event log ---------- */

// Log is the run's event log. Events are numbered by rt.Tick (a counter inside
// the runtime, invisible to the race detector). The log keeps a rolling hash
// of everything and, optionally, the text.
type Log struct {
	Keep  bool
	Lines []string
	N     int
	h     uint64
}

func NewLog(keep bool) *Log {
	rt.ResetTick()
	LastLog = &Log{Keep: keep || KeepLog, h: 1469598103934665603}
	return LastLog
}

// LastLog is the log of the most recent run (the worker attaches its text to
// the result when the job asks for it).
var LastLog *Log

// DebugDraws annotates kept log lines with the runtime stream position (SIM_DEBUG_DRAWS=1).
var DebugDraws = os.Getenv("SIM_DEBUG_DRAWS") != ""

// Ev appends an event and returns its global sequence number.
func (l *Log) Ev(format string, a ...interface{}) uint64 {
	seq := rt.Tick()
	var s string
	if len(a) == 0 {
		s = format
	} else {
		s = fmt.Sprintf(format, a...)
	}
	l.add(seq, s)
	return seq
}

func (l *Log) add(seq uint64, s string) {
	l.N++
	h := l.h
	for i := 0; i < 8; i++ {
		h ^= (seq >> (8 * uint(i))) & 0xff
		h *= 1099511628211
	}
	for i := 0; i < len(s); i++ {
		h ^= uint64(s[i])
		h *= 1099511628211
	}
	l.h = h
	if l.Keep {
		if DebugDraws {
			l.Lines = append(l.Lines, fmt.Sprintf("%d %s [draws=%d yields=%d]", seq, s, rt.Draws(), rt.Yields()))
		} else {
			l.Lines = append(l.Lines, fmt.Sprintf("%d %s", seq, s))
		}
	}
}

// AddAt records an event that was stamped earlier (per-actor buffers).
func (l *Log) AddAt(seq uint64, s string) { l.add(seq, s) }

func (l *Log) Hash() string { return fmt.Sprintf("%016x", l.h) }

/* ---------- records ---------- */

// Violation is one oracle failure. Rule names the oracle; Key is the stable
// part of the witness that known-findings are matched on; Witness is for humans.
type Violation struct {
	Prop    string `json:"prop"`
	Rule    string `json:"rule"`
	Key     string `json:"key"`
	Witness string `json:"witness"`
}

// Item is one element of a plan: a workload operation or a fault. Its meaning
// is given by the check that owns the plan; the driver only drops or shrinks items.
type Item struct {
	K string `json:"k"`           // kind
	P int    `json:"p,omitempty"` // peer / actor / connection index
	A int    `json:"a,omitempty"`
	B int    `json:"b,omitempty"`
	C int    `json:"c,omitempty"`
	D int    `json:"d,omitempty"`
	S string `json:"s,omitempty"`
	T string `json:"t,omitempty"`
	L []int  `json:"l,omitempty"`
}

func (it Item) String() string {
	s := it.K
	if it.P != 0 {
		s += fmt.Sprintf(" p%d", it.P)
	}
	if it.S != "" {
		s += " " + it.S
	}
	if it.T != "" {
		s += " " + it.T
	}
	if it.A != 0 || it.B != 0 || it.C != 0 || it.D != 0 {
		s += fmt.Sprintf(" %d,%d,%d,%d", it.A, it.B, it.C, it.D)
	}
	if len(it.L) > 0 {
		s += fmt.Sprintf(" %v", it.L)
	}
	return s
}

// Plan is everything that determines a run besides the code: the seed (from
// which scheduler and runtime streams are derived), the swarm knobs and the items.
type Plan struct {
	Check string         `json:"check"`
	Seed  uint64         `json:"seed"`
	Yield int            `json:"yield"` // lock/chan/select yield rate 1/Yield, 0 = off
	Knobs map[string]int `json:"knobs,omitempty"`
	Items []Item         `json:"items"`
}

func (p *Plan) Knob(name string, def int) int {
	if v, ok := p.Knobs[name]; ok {
		return v
	}
	return def
}

func (p *Plan) SetKnob(name string, v int) {
	if p.Knobs == nil {
		p.Knobs = map[string]int{}
	}
	p.Knobs[name] = v
}

// Brief renders a plan compactly for the evidence samples.
func (p *Plan) Brief(max int) string {
	var b strings.Builder
	fmt.Fprintf(&b, "seed=%d yield=%d", p.Seed, p.Yield)
	keys := make([]string, 0, len(p.Knobs))
	for k := range p.Knobs {
		keys = append(keys, k)
	}
	sort.Strings(keys)
	for _, k := range keys {
		fmt.Fprintf(&b, " %s=%d", k, p.Knobs[k])
	}
	b.WriteString(" |")
	for i, it := range p.Items {
		if i >= max {
			fmt.Fprintf(&b, " …(+%d)", len(p.Items)-max)
			break
		}
		b.WriteString(" " + it.String() + ";")
	}
	return b.String()
}

// Result is what one simulated run reports.
type Result struct {
	Check      string           `json:"check"`
	Seed       uint64           `json:"seed"`
	Hash       string           `json:"hash"`
	Events     int              `json:"events"`
	Steps      int              `json:"steps"`
	SimNanos   int64            `json:"sim_ns"`
	Yields     uint64           `json:"yields"`
	Violations []Violation      `json:"violations,omitempty"`
	Counters   map[string]int64 `json:"counters,omitempty"`
	Sched      string           `json:"sched,omitempty"` // fingerprint of the interleaving
	State      string           `json:"state,omitempty"` // fingerprint of abstract states seen
	Nontrivial bool             `json:"nontrivial"`
	Inconcl    int              `json:"inconclusive,omitempty"`
	Sample     string           `json:"sample,omitempty"`
	Plan       *Plan            `json:"plan,omitempty"`
	LogTail    []string         `json:"log_tail,omitempty"`
}

func (r *Result) Count(name string, n int64) {
	if r.Counters == nil {
		r.Counters = map[string]int64{}
	}
	r.Counters[name] += n
}

func (r *Result) Violate(prop, rule, key, witness string) {
	for _, v := range r.Violations {
		if v.Rule == rule && v.Key == key {
			return
		}
	}
	if len(r.Violations) >= 8 {
		return
	}
	r.Violations = append(r.Violations, Violation{prop, rule, key, witness})
}

func (r *Result) JSON() string {
	b, _ := json.Marshal(r)
	return string(b)
}

/* ---------- bubble runner ---------- */

// Epoch is the virtual time at which every bubble starts.
var Epoch = time.Date(2000, 1, 1, 0, 0, 0, 0, time.UTC)

// Bubble runs body inside a fresh synctest bubble under the seeded runtime.
// It returns the text of an end-of-bubble panic ("deadlock: ...", or a panic in
// the bubble's root goroutine), "" if none. A panic in any other goroutine of
// the bubble kills the process; the driver attributes it to the announced run.
func Bubble(t *testing.T, seed uint64, yieldN int, body func()) (panicText string) {
	runtime.GOMAXPROCS(1)
	old := debug.SetGCPercent(-1)
	runtime.GC()
	defer func() {
		rt.Off()
		debug.SetGCPercent(old)
	}()
	defer func() {
		if r := recover(); r != nil {
			panicText = fmt.Sprint(r)
		}
	}()
	rt.Seed(Derive(seed, "runtime"), uint32(yieldN))
	synctest.Test(t, func(*testing.T) {
		body()
	})
	return ""
}

// SimNow is the virtual time elapsed since the start of the bubble.
func SimNow() time.Duration { return time.Since(Epoch) }

// AdvanceToNextTimer sleeps the calling (driver) goroutine until the bubble's
// earliest timer is due, bounded by max. It reports whether time moved.
func AdvanceToNextTimer(max time.Duration) bool {
	w := rt.NextWake()
	if w == 0 {
		return false
	}
	now := time.Now().UnixNano()
	d := time.Duration(w - now)
	if d <= 0 {
		d = 0
	}
	if d > max {
		d = max
	}
	time.Sleep(d)
	return true
}

// Stacks returns the stacks of all goroutines that belong to a synctest bubble,
// excluding the caller; used as the witness of a leak.
func Stacks(skipSubstr ...string) []string {
	buf := make([]byte, 4<<20)
	n := runtime.Stack(buf, true)
	var out []string
	mine := ""
	for i, g := range strings.Split(string(buf[:n]), "\n\n") {
		head := g
		if j := strings.IndexByte(g, '\n'); j >= 0 {
			head = g[:j]
		}
		k := strings.Index(head, "synctest bubble ")
		if i == 0 {
			// the caller: remember which bubble it lives in
			if k >= 0 {
				mine = strings.TrimRight(head[k:], "]:")
			}
			continue
		}
		if k < 0 || mine == "" || strings.TrimRight(head[k:], "]:") != mine {
			continue // goroutines of other (earlier, leaked) bubbles are not ours
		}
		skip := false
		for _, s := range skipSubstr {
			if strings.Contains(g, s) {
				skip = true
			}
		}
		if !skip {
			out = append(out, g)
		}
	}
	return out
}

// TopFrames condenses a goroutine dump to "func<-func<-func" of its first n
// frames of interest (used as a stable witness key).
func TopFrames(stack string, n int) string {
	var fr []string
	for _, ln := range strings.Split(stack, "\n") {
		if strings.HasPrefix(ln, "\t") || strings.HasPrefix(ln, "goroutine ") || ln == "" {
			continue
		}
		if i := strings.LastIndexByte(ln, '('); i > 0 {
			ln = ln[:i]
		}
		if strings.HasPrefix(ln, "created by ") {
			continue
		}
		if j := strings.LastIndexByte(ln, '/'); j >= 0 {
			ln = ln[j+1:]
		}
		if strings.HasPrefix(ln, "runtime.") || strings.HasPrefix(ln, "sync.") || strings.HasPrefix(ln, "internal/") || strings.HasPrefix(ln, "time.") {
			continue
		}
		fr = append(fr, ln)
		if len(fr) >= n {
			break
		}
	}
	return strings.Join(fr, "<-")
}

/* ---------- check registry ---------- */

// Check is one property's simulated check as the worker binary sees it.
type Check struct {
	ID string
	// Expand turns a seed into the plans to run for it (one for seeded
	// exploration; base run + one per fault position for fault enumeration).
	Expand func(t *testing.T, seed uint64, tier string) []*Plan
	// Run executes one plan and reports.
	Run func(t *testing.T, p *Plan) *Result
}

// KeepLog makes worlds keep the text of their event logs (replays, self-test).
var KeepLog bool

var Checks = map[string]*Check{}

func Register(c *Check) { Checks[c.ID] = c }

// Leaked returns the condensed stacks of the bubble's goroutines other than the
// caller and synctest's own two (the Run caller and the Test wrapper).
func Leaked() []string {
	var out []string
	for _, st := range Stacks("synctest.Run(", "testing.testingSynctestTest(", "synctest.testingSynctestTest") {
		out = append(out, TopFrames(st, 4))
	}
	// the dump lists goroutines in an order that depends on goroutine ids, i.e.
	// on what ran earlier in the process: sort, so that the first entry (used as
	// the violation key) is the same in a batch and in a fresh replay
	sort.Strings(out)
	return out
}
