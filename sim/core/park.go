package core

import (
	"runtime"
	"strings"
	_ "unsafe"

	"verif/sim/rt"
)

// Lock-site parking ("long yields"): with probability 1/ParkN a goroutine of
// the system under test that is about to acquire a sync.Mutex / RWMutex from
// inside gomqtt code is parked - durably, holding whatever it already holds -
// until the simulator's driver releases it. Unlike a runtime yield (which only
// moves the goroutine to the back of the run queue) this lets arbitrary driver
// actions (deliveries, timers, other connections' whole request/response
// exchanges) happen between two statements of the code under test.

//go:linkname simLockHook sync.simLockHook
var simLockHook func()

// Parked is one goroutine waiting at a lock site.
type Parked struct {
	Site string
	ch   chan struct{}
}

type parker struct {
	n       int
	rnd     *Rand
	driver  uint64
	list    []*Parked
	inHook  bool
	Count   int
	maxOpen int
}

var park parker

// ParkStart enables parking for the current run. It must be called by the
// driver goroutine inside the bubble; ParkStop must be called before the
// bubble ends.
func ParkStart(seed uint64, n int) {
	park = parker{n: n, rnd: NewRand(Derive(seed, "park")), driver: rt.GoID(), maxOpen: 6}
	if n > 0 {
		simLockHook = lockHook
	} else {
		simLockHook = nil
	}
}

// ParkStop disables parking and releases everything that is parked.
func ParkStop() {
	simLockHook = nil
	for _, p := range park.list {
		close(p.ch)
	}
	park.list = nil
}

// ParkedCount is the number of goroutines currently parked at lock sites.
func ParkedCount() int { return len(park.list) }

// ParkTotal is how many times a goroutine was parked in this run.
func ParkTotal() int { return park.Count }

// ReleaseParked releases one parked goroutine chosen by r (false if none).
func ReleaseParked(r *Rand) bool {
	if len(park.list) == 0 {
		return false
	}
	i := r.Intn(len(park.list))
	p := park.list[i]
	park.list = append(park.list[:i], park.list[i+1:]...)
	close(p.ch)
	return true
}

func lockHook() {
	if park.n == 0 || park.inHook || !rt.Bubbled() {
		return
	}
	if rt.GoID() == park.driver || len(park.list) >= park.maxOpen {
		return
	}
	if park.rnd.Intn(park.n) != 0 {
		return
	}
	// only lock acquisitions made by gomqtt code itself
	var pcs [6]uintptr
	k := runtime.Callers(3, pcs[:])
	site := ""
	for i := 0; i < k; i++ {
		f := runtime.FuncForPC(pcs[i] - 1)
		if f == nil {
			continue
		}
		name := f.Name()
		if strings.HasPrefix(name, "sync.") || strings.HasPrefix(name, "internal/sync.") {
			continue
		}
		if strings.HasPrefix(name, "github.com/256dpi/gomqtt/") {
			site = name[len("github.com/256dpi/gomqtt/"):]
		}
		break
	}
	if site == "" {
		return
	}
	park.inHook = true
	p := &Parked{Site: site, ch: make(chan struct{})}
	park.list = append(park.list, p)
	park.Count++
	park.inHook = false
	<-p.ch
}
