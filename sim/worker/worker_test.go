// Package worker is the simulation worker binary (a test binary, because
// testing/synctest needs a *testing.T). The driver /verif/bin/simcheck starts
// it with SIM_JOB pointing at a JSON job description.
package worker

import (
	"bufio"
	"encoding/json"
	"fmt"
	"os"
	"runtime"
	"testing"
	"time"

	"verif/sim/core"
	_ "verif/sim/worlds/brk"
	_ "verif/sim/worlds/cli"
	_ "verif/sim/worlds/conn"
	_ "verif/sim/worlds/e2e"
	_ "verif/sim/worlds/lib"
)

type job struct {
	Check    string   `json:"check"`
	Mode     string   `json:"mode"` // batch | replay
	Tier     string   `json:"tier"`
	From     uint64   `json:"from"`
	To       uint64   `json:"to"` // exclusive
	Stride   uint64   `json:"stride"`
	Seeds    []uint64 `json:"seeds"`
	PlanFile string   `json:"plan_file"`
	Out      string   `json:"out"`
	Deadline float64  `json:"deadline_s"` // wall-clock budget for a batch, 0 = none
	KeepLog  bool     `json:"keep_log"`
	NoWarm   bool     `json:"no_warm"`
}

func TestWorker(t *testing.T) {
	path := os.Getenv("SIM_JOB")
	if path == "" {
		t.Skip("no SIM_JOB")
	}
	runtime.GOMAXPROCS(1)
	raw, err := os.ReadFile(path)
	if err != nil {
		fmt.Fprintln(os.Stderr, "worker: cannot read job:", err)
		os.Exit(2)
	}
	var j job
	if err := json.Unmarshal(raw, &j); err != nil {
		fmt.Fprintln(os.Stderr, "worker: bad job:", err)
		os.Exit(2)
	}
	chk := core.Checks[j.Check]
	if chk == nil {
		fmt.Fprintln(os.Stderr, "worker: unknown check", j.Check)
		os.Exit(2)
	}
	f, err := os.Create(j.Out)
	if err != nil {
		fmt.Fprintln(os.Stderr, "worker: cannot create out:", err)
		os.Exit(2)
	}
	w := bufio.NewWriter(f)
	emit := func(s string) {
		_, _ = w.WriteString(s)
		_ = w.WriteByte('\n')
		_ = w.Flush()
	}
	core.KeepLog = j.KeepLog

	// warm-up: the first execution of a code path in a process can differ from
	// later ones (one-time initialisations in the standard library take locks or
	// create maps and thereby consume draws of the runtime stream), so every
	// process -- batch or replay -- first runs the same 32 warm-up seeds and
	// discards them (DESIGN.md 2.1).
	if !j.NoWarm {
		for ws := uint64(0); ws < 32; ws++ {
			for i, p := range chk.Expand(t, ws, "quick") {
				if i >= 3 {
					break
				}
				pb, _ := json.Marshal(p)
				emit("START " + string(pb))
				chk.Run(t, p)
				emit("WARMED")
			}
		}
	}

	switch j.Mode {
	case "replay":
		raw, err := os.ReadFile(j.PlanFile)
		if err != nil {
			fmt.Fprintln(os.Stderr, "worker: cannot read plan:", err)
			os.Exit(2)
		}
		var p core.Plan
		if err := json.Unmarshal(raw, &p); err != nil {
			fmt.Fprintln(os.Stderr, "worker: bad plan:", err)
			os.Exit(2)
		}
		pb, _ := json.Marshal(&p)
		emit("START " + string(pb))
		r := chk.Run(t, &p)
		r.Plan = &p
		if j.KeepLog && core.LastLog != nil {
			r.LogTail = core.LastLog.Lines
		}
		emit("RESULT " + r.JSON())
	default:
		start := time.Now()
		seeds := j.Seeds
		if len(seeds) == 0 {
			st := j.Stride
			if st == 0 {
				st = 1
			}
			for s := j.From; s < j.To; s += st {
				seeds = append(seeds, s)
			}
		}
		for _, s := range seeds {
			if j.Deadline > 0 && time.Since(start).Seconds() > j.Deadline {
				emit(fmt.Sprintf("STOPPED %d", s))
				break
			}
			for _, p := range chk.Expand(t, s, j.Tier) {
				pb, _ := json.Marshal(p)
				emit("START " + string(pb))
				r := chk.Run(t, p)
				if len(r.Violations) > 0 {
					r.Plan = p
				}
				if j.KeepLog && core.LastLog != nil {
					r.LogTail = core.LastLog.Lines
				}
				emit("RESULT " + r.JSON())
			}
		}
	}
	emit("DONE")
	_ = f.Close()
}
