// Package simnet is the simulated byte transport below net.Conn: an in-memory
// duplex link whose delivery, fragmentation, loss and failures are decided by
// the simulator, and whose deadlines read the bubble's virtual clock.
package simnet

import (
	"errors"
	"fmt"
	"io"
	"net"
	"os"
	"sync"
	"time"
)

// ErrReset is what a reader or writer sees after the link was cut.
var ErrReset = errors.New("simnet: connection reset by peer")

// ErrClosed is returned by operations on a closed Conn.
var ErrClosed = errors.New("simnet: use of closed connection")

type timeoutError struct{}

func (timeoutError) Error() string   { return "simnet: i/o timeout" }
func (timeoutError) Timeout() bool   { return true }
func (timeoutError) Temporary() bool { return true }
func (timeoutError) Is(err error) bool {
	return err == os.ErrDeadlineExceeded
}

// ErrTimeout is the read-deadline error.
var ErrTimeout error = timeoutError{}

// Pipe is one direction of a link. Bytes written sit "in flight" until the
// simulator delivers them; only then can the reading end see them.
type Pipe struct {
	Name string

	mu       sync.Mutex
	inflight []byte
	avail    []byte
	finSent  bool  // writer closed its end
	finRecvd bool  // the FIN has been delivered to the reader
	broken   error // link cut: reads fail once avail is drained, writes fail at once
	notify   chan struct{}
	wnotify  chan struct{}

	// Cap > 0 bounds the in-flight buffer (a socket buffer / TCP window): Write
	// blocks while it is full, until the simulator delivers bytes, the pipe is
	// cut or the writer's end is closed.
	Cap int

	// Sink, if set, receives delivered bytes instead of a Conn reader
	// (scripted peers live inside the simulator and have no goroutine).
	Sink    func(b []byte)
	SinkEOF func(err error)

	// counters
	Written   int
	Blocked   int // how often a writer had to wait for room
	Delivered int
	Dropped   int
	Wire      []byte // everything ever written, if Record is set
	Record    bool
}

func newPipe(name string) *Pipe {
	return &Pipe{Name: name, notify: make(chan struct{}, 1), wnotify: make(chan struct{}, 1)}
}

func (p *Pipe) wake() {
	select {
	case p.notify <- struct{}{}:
	default:
	}
}

func (p *Pipe) wwake() {
	select {
	case p.wnotify <- struct{}{}:
	default:
	}
}

// Write appends to the in-flight buffer (used by Conn.Write and by scripted
// peers). With Cap > 0 it blocks while the buffer is full.
func (p *Pipe) Write(b []byte) (int, error) { return p.WriteUntil(b, time.Time{}) }

// WriteUntil is Write with a deadline on the virtual clock (zero = none): a
// writer blocked on a full buffer gives up with ErrTimeout when it passes.
func (p *Pipe) WriteUntil(b []byte, deadline time.Time) (int, error) {
	written := 0
	var tm *time.Timer
	defer func() {
		if tm != nil {
			tm.Stop()
		}
	}()
	for {
		if !deadline.IsZero() && !time.Now().Before(deadline) && len(b) > 0 {
			p.mu.Lock()
			full := p.Cap > 0 && p.Cap-len(p.inflight) <= 0 && p.broken == nil && !p.finSent
			p.mu.Unlock()
			if full {
				return written, ErrTimeout
			}
		}
		p.mu.Lock()
		if p.broken != nil {
			err := p.broken
			p.mu.Unlock()
			return written, err
		}
		if p.finSent {
			p.mu.Unlock()
			return written, ErrClosed
		}
		n := len(b)
		if p.Cap > 0 {
			room := p.Cap - len(p.inflight)
			if room < n {
				n = room
			}
		}
		if n > 0 {
			p.inflight = append(p.inflight, b[:n]...)
			p.Written += n
			if p.Record {
				p.Wire = append(p.Wire, b[:n]...)
			}
			b = b[n:]
			written += n
		}
		if len(b) == 0 {
			p.mu.Unlock()
			return written, nil
		}
		p.Blocked++
		p.mu.Unlock()
		if !deadline.IsZero() && tm == nil {
			d := time.Until(deadline)
			if d < 0 {
				d = 0
			}
			tm = time.AfterFunc(d, p.wwake)
		}
		<-p.wnotify
	}
}

// CloseWrite marks the writer's end closed; the FIN travels behind the data.
func (p *Pipe) CloseWrite() {
	p.mu.Lock()
	p.finSent = true
	p.mu.Unlock()
	p.wwake()
}

// WrittenBytes is the number of bytes ever written into the pipe.
func (p *Pipe) WrittenBytes() int {
	p.mu.Lock()
	defer p.mu.Unlock()
	return p.Written
}

// InFlight is the number of bytes written but not yet delivered.
func (p *Pipe) InFlight() int {
	p.mu.Lock()
	defer p.mu.Unlock()
	return len(p.inflight)
}

// FinPending reports whether a FIN is waiting behind fully delivered data.
func (p *Pipe) FinPending() bool {
	p.mu.Lock()
	defer p.mu.Unlock()
	return p.finSent && !p.finRecvd && len(p.inflight) == 0 && p.broken == nil
}

// Readable is the number of delivered, unread bytes.
func (p *Pipe) Readable() int {
	p.mu.Lock()
	defer p.mu.Unlock()
	return len(p.avail)
}

// Deliver moves up to n in-flight bytes to the reader. It returns the count.
func (p *Pipe) Deliver(n int) int {
	p.mu.Lock()
	if n > len(p.inflight) {
		n = len(p.inflight)
	}
	if n <= 0 || p.broken != nil {
		p.mu.Unlock()
		return 0
	}
	chunk := append([]byte(nil), p.inflight[:n]...)
	p.inflight = p.inflight[n:]
	p.Delivered += n
	sink := p.Sink
	if sink == nil {
		p.avail = append(p.avail, chunk...)
	}
	p.mu.Unlock()
	p.wwake()
	if sink != nil {
		sink(chunk)
	} else {
		p.wake()
	}
	return n
}

// DeliverFIN hands the reader the end of stream (all data must be delivered).
func (p *Pipe) DeliverFIN() bool {
	p.mu.Lock()
	if !p.finSent || p.finRecvd || len(p.inflight) > 0 || p.broken != nil {
		p.mu.Unlock()
		return false
	}
	p.finRecvd = true
	eof := p.SinkEOF
	p.mu.Unlock()
	if eof != nil {
		eof(io.EOF)
	} else {
		p.wake()
	}
	return true
}

// Cut breaks the pipe: in-flight bytes are lost, the reader fails once it has
// used up what had arrived, the writer fails at once.
func (p *Pipe) Cut(err error) {
	p.mu.Lock()
	if p.broken != nil {
		p.mu.Unlock()
		return
	}
	if err == nil {
		err = ErrReset
	}
	p.Dropped += len(p.inflight)
	p.inflight = nil
	p.broken = err
	eof := p.SinkEOF
	p.mu.Unlock()
	p.wwake()
	if eof != nil {
		eof(err)
	} else {
		p.wake()
	}
}

// Broken reports whether the pipe was cut.
func (p *Pipe) Broken() bool {
	p.mu.Lock()
	defer p.mu.Unlock()
	return p.broken != nil
}

// Link is a duplex connection between end A and end B.
type Link struct {
	ID   int
	A2B  *Pipe
	B2A  *Pipe
	A, B *Conn
}

// NewLink creates a link and its two net.Conn ends.
func NewLink(id int) *Link {
	l := &Link{ID: id, A2B: newPipe(fmt.Sprintf("L%d.a>b", id)), B2A: newPipe(fmt.Sprintf("L%d.b>a", id))}
	l.A = newConn(fmt.Sprintf("L%d.A", id), l.B2A, l.A2B)
	l.B = newConn(fmt.Sprintf("L%d.B", id), l.A2B, l.B2A)
	return l
}

// Cut breaks both directions.
func (l *Link) Cut() {
	l.A2B.Cut(nil)
	l.B2A.Cut(nil)
}

// FaultFn lets the simulator fail individual carrier calls: op is one of
// "read", "write", "close", "deadline"; n is the 1-based index of that call on
// this Conn. A non-nil result is returned to the caller instead of acting.
type FaultFn func(op string, n int) error

// Conn is one end of a link; it implements net.Conn.
type Conn struct {
	name string
	in   *Pipe
	out  *Pipe

	mu        sync.Mutex
	closed    bool
	closeCh   chan struct{}
	deadline  time.Time
	wdeadline time.Time
	dlGen     int

	Fault   FaultFn
	MaxRead int // upper bound of bytes returned per Read (0 = no bound)
	calls   map[string]int

	// observation
	OnCall func(op string, n int, arg int) // after a call was counted, before it acts
	Reads  int
}

func newConn(name string, in, out *Pipe) *Conn {
	return &Conn{name: name, in: in, out: out, closeCh: make(chan struct{}), calls: map[string]int{}}
}

func (c *Conn) count(op string, arg int) (int, error) {
	c.mu.Lock()
	c.calls[op]++
	n := c.calls[op]
	f, oc := c.Fault, c.OnCall
	c.mu.Unlock()
	if oc != nil {
		oc(op, n, arg)
	}
	if f != nil {
		if err := f(op, n); err != nil {
			return n, err
		}
	}
	return n, nil
}

// Calls returns how often op was called.
func (c *Conn) Calls(op string) int {
	c.mu.Lock()
	defer c.mu.Unlock()
	return c.calls[op]
}

func (c *Conn) Read(b []byte) (int, error) {
	if _, err := c.count("read", len(b)); err != nil {
		return 0, err
	}
	for {
		c.mu.Lock()
		closed := c.closed
		dl := c.deadline
		c.mu.Unlock()
		if closed {
			return 0, ErrClosed
		}
		p := c.in
		p.mu.Lock()
		if len(p.avail) > 0 && len(b) > 0 {
			n := len(b)
			if n > len(p.avail) {
				n = len(p.avail)
			}
			if c.MaxRead > 0 && n > c.MaxRead {
				n = c.MaxRead
			}
			copy(b, p.avail[:n])
			p.avail = p.avail[n:]
			p.mu.Unlock()
			return n, nil
		}
		if p.broken != nil {
			err := p.broken
			p.mu.Unlock()
			return 0, err
		}
		if p.finRecvd {
			p.mu.Unlock()
			return 0, io.EOF
		}
		p.mu.Unlock()
		if len(b) == 0 {
			return 0, nil
		}
		var tc <-chan time.Time
		var tm *time.Timer
		if !dl.IsZero() {
			d := time.Until(dl)
			if d <= 0 {
				return 0, ErrTimeout
			}
			tm = time.NewTimer(d)
			tc = tm.C
		}
		select {
		case <-p.notify:
		case <-tc:
		case <-c.closeCh:
		}
		if tm != nil {
			tm.Stop()
		}
	}
}

func (c *Conn) Write(b []byte) (int, error) {
	if _, err := c.count("write", len(b)); err != nil {
		return 0, err
	}
	c.mu.Lock()
	closed, wd := c.closed, c.wdeadline
	c.mu.Unlock()
	if closed {
		return 0, ErrClosed
	}
	return c.out.WriteUntil(b, wd)
}

func (c *Conn) Close() error {
	_, ferr := c.count("close", 0)
	c.mu.Lock()
	if c.closed {
		c.mu.Unlock()
		if ferr != nil {
			return ferr
		}
		return ErrClosed
	}
	c.closed = true
	close(c.closeCh)
	c.mu.Unlock()
	c.out.CloseWrite()
	return ferr
}

// IsClosed reports whether Close was called on this end.
func (c *Conn) IsClosed() bool {
	c.mu.Lock()
	defer c.mu.Unlock()
	return c.closed
}

func (c *Conn) SetReadDeadline(t time.Time) error {
	if _, err := c.count("deadline", 0); err != nil {
		return err
	}
	c.mu.Lock()
	if c.closed {
		c.mu.Unlock()
		return ErrClosed
	}
	c.deadline = t
	c.mu.Unlock()
	c.in.wake() // a blocked reader re-arms its timer
	return nil
}

func (c *Conn) SetDeadline(t time.Time) error {
	_ = c.SetWriteDeadline(t)
	return c.SetReadDeadline(t)
}
func (c *Conn) SetWriteDeadline(t time.Time) error {
	c.mu.Lock()
	c.wdeadline = t
	c.mu.Unlock()
	return nil
}
func (c *Conn) LocalAddr() net.Addr  { return addr(c.name) }
func (c *Conn) RemoteAddr() net.Addr { return addr(c.name + ".peer") }

type addr string

func (a addr) Network() string { return "sim" }
func (a addr) String() string  { return string(a) }

// Truncate ends the stream here: in-flight bytes are lost and the reader sees
// a clean end of stream (the peer died after a partial write).
func (p *Pipe) Truncate() {
	p.mu.Lock()
	p.Dropped += len(p.inflight)
	p.inflight = nil
	p.finSent = true
	p.mu.Unlock()
	p.DeliverFIN()
}

// FinDone reports whether the end of stream has reached the reader.
func (p *Pipe) FinDone() bool {
	p.mu.Lock()
	defer p.mu.Unlock()
	return p.finRecvd
}
