// Package rt exposes the simrt hooks that /verif/tools/mkoverlay.py adds to the
// go1.26.8 runtime (DESIGN.md 2.1). It only links when built with the overlay.
package rt

import _ "unsafe"

// Seed switches the seeded runtime on: map seeds, select order, timer ties and
// lock-yield decisions of bubbled goroutines are drawn from one splitmix64
// stream initialised with seed. yieldN = 0 disables yields, otherwise a
// goroutine is pre-empted with probability 1/yieldN at every lock acquisition,
// blocking channel operation and blocking select.
//
//go:linkname Seed runtime.simSeed
func Seed(seed uint64, yieldN uint32)

//go:linkname Off runtime.simOff
func Off()

//go:linkname SetYield runtime.simSetYield
func SetYield(yieldN uint32)

// Yields is the number of seeded pre-emptions since Seed.
//
//go:linkname Yields runtime.simYields
func Yields() uint64

// Draws is the number of values drawn from the runtime stream since Seed.
//
//go:linkname Draws runtime.simDraws
func Draws() uint64

// NextWake is the virtual deadline of the bubble's earliest timer, 0 if none.
//
//go:linkname NextWake runtime.simNextWake
func NextWake() int64

// BubbleTotal is the number of goroutines alive in the caller's bubble.
//
//go:linkname BubbleTotal runtime.simBubbleTotal
func BubbleTotal() int

// Tick increments and returns a global event sequence number. It lives in the
// runtime so that the race detector sees no synchronisation through it.
//
//go:linkname Tick runtime.simTick
func Tick() uint64

// ResetTick restarts the event sequence (every run starts at 1).
//
//go:linkname ResetTick runtime.simResetTick
func ResetTick()

// GoID identifies the calling goroutine.
//
//go:linkname GoID runtime.simGoID
func GoID() uint64

// Bubbled reports whether the caller runs in a bubble under the seeded runtime.
//
//go:linkname Bubbled runtime.simBubbled
func Bubbled() bool
