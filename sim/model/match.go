// Package model holds the small sequential reference models the oracles use.
// They are written from the MQTT 3.1.1 text, not from the code they judge.
package model

import (
	"sort"
	"strings"
)

// Levels splits a topic on every '/', keeping empty levels.
func Levels(s string) []string { return strings.Split(s, "/") }

// Matches reports whether filter matches name by MQTT 3.1.1 section 4.7:
// '+' stands for exactly one level, a trailing '#' for zero or more levels
// including the parent level, levels may be empty, comparison is byte-exact.
func Matches(filter, name string) bool {
	f, n := Levels(filter), Levels(name)
	for i, fl := range f {
		if fl == "#" && i == len(f)-1 {
			// matches the parent level (i == len(n)) and anything below
			return len(n) >= i
		}
		if i >= len(n) {
			return false
		}
		if fl == "+" {
			continue
		}
		if fl != n[i] {
			return false
		}
	}
	return len(f) == len(n)
}

// HasWildcard reports whether s contains a wildcard level.
func HasWildcard(s string) bool {
	for _, l := range Levels(s) {
		if l == "+" || l == "#" {
			return true
		}
	}
	return false
}

// TreeModel is a plain map from topic to a duplicate-free value list.
type TreeModel struct {
	M map[string][]int
}

func NewTreeModel() *TreeModel { return &TreeModel{M: map[string][]int{}} }

func has(l []int, v int) bool {
	for _, x := range l {
		if x == v {
			return true
		}
	}
	return false
}

func (m *TreeModel) Add(t string, v int) {
	if !has(m.M[t], v) {
		m.M[t] = append(m.M[t], v)
	}
}
func (m *TreeModel) Set(t string, v int) { m.M[t] = []int{v} }
func (m *TreeModel) Remove(t string, v int) {
	l := m.M[t]
	for i, x := range l {
		if x == v {
			l = append(append([]int{}, l[:i]...), l[i+1:]...)
			break
		}
	}
	if len(l) == 0 {
		delete(m.M, t)
	} else {
		m.M[t] = l
	}
}
func (m *TreeModel) Empty(t string) { delete(m.M, t) }
func (m *TreeModel) Clear(v int) {
	for t := range m.M {
		m.Remove(t, v)
	}
}
func (m *TreeModel) Reset() { m.M = map[string][]int{} }

func sortedSet(l []int) []int {
	s := map[int]bool{}
	for _, x := range l {
		s[x] = true
	}
	out := make([]int, 0, len(s))
	for x := range s {
		out = append(out, x)
	}
	sort.Ints(out)
	return out
}

// Get returns the values stored exactly under t (sorted).
func (m *TreeModel) Get(t string) []int { return sortedSet(m.M[t]) }

// Match: stored keys are filters, the query is a topic name.
func (m *TreeModel) Match(name string) []int {
	var l []int
	for f, vs := range m.M {
		if Matches(f, name) {
			l = append(l, vs...)
		}
	}
	return sortedSet(l)
}

// Search: stored keys are names, the query is a filter.
func (m *TreeModel) Search(filter string) []int {
	var l []int
	for n, vs := range m.M {
		if Matches(filter, n) {
			l = append(l, vs...)
		}
	}
	return sortedSet(l)
}

func (m *TreeModel) All() []int {
	var l []int
	for _, vs := range m.M {
		l = append(l, vs...)
	}
	return sortedSet(l)
}

func (m *TreeModel) Count() int {
	n := 0
	for _, vs := range m.M {
		n += len(vs)
	}
	return n
}

// Canon is a canonical rendering of the contents (used as porcupine state).
func (m *TreeModel) Canon() string {
	keys := make([]string, 0, len(m.M))
	for k := range m.M {
		keys = append(keys, k)
	}
	sort.Strings(keys)
	var b strings.Builder
	for _, k := range keys {
		b.WriteString(k)
		b.WriteByte('=')
		for _, v := range sortedSet(m.M[k]) {
			b.WriteByte(byte('0' + v))
		}
		b.WriteByte(';')
	}
	return b.String()
}

// Clone copies the model.
func (m *TreeModel) Clone() *TreeModel {
	c := NewTreeModel()
	for k, v := range m.M {
		c.M[k] = append([]int{}, v...)
	}
	return c
}

// ParseCanon rebuilds a model from Canon output.
func ParseCanon(s string) *TreeModel {
	m := NewTreeModel()
	for _, part := range strings.Split(s, ";") {
		if part == "" {
			continue
		}
		i := strings.LastIndexByte(part, '=')
		k, vs := part[:i], part[i+1:]
		for _, c := range vs {
			m.M[k] = append(m.M[k], int(c-'0'))
		}
	}
	return m
}
