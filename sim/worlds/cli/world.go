// Package cli is the W-client world: the real client.Client / client.Service
// with Config.Dialer pointing into the simulator, its Session wrapped by a
// recording/fault-injecting probe, and a scripted broker peer on the other end
// of every simulated link. API calls are issued by actor goroutines.
package cli

import (
	"errors"
	"fmt"
	"strings"
	"testing/synctest"
	"time"

	"github.com/256dpi/gomqtt/packet"
	"github.com/256dpi/gomqtt/session"
	"github.com/256dpi/gomqtt/transport"

	"verif/sim/core"
	"verif/sim/rt"
	"verif/sim/simnet"
)

var errInjected = errors.New("injected failure")

// Ev is one entry of the recorded history.
type Ev struct {
	Seq uint64
	K   string
	C   int // connection (dial) number, 0 = none
	P   packet.Generic
	Err error
	S   string
	N   int
	A   int
	At  time.Duration
}

const (
	EvDial     = "dial"     // the client dialled
	EvSend     = "cl-send"  // client entered Send on its conn
	EvSent     = "cl-sent"  // that Send returned
	EvRecv     = "cl-recv"  // client's Receive returned
	EvClose    = "cl-close" // client closed its conn
	EvSess     = "session"  // session operation (S = op)
	EvBRecv    = "br-recv"  // scripted broker decoded a packet from the client
	EvBSend    = "br-send"  // scripted broker wrote a packet
	EvBEOF     = "br-eof"   // scripted broker saw the connection end
	EvCallback = "callback" // client callback invoked
	EvAPI      = "api"      // API call issued (S = name)
	EvAPIRet   = "api-ret"  // API call returned
	EvFuture   = "future"   // a future resolved (S = result)
	EvFault    = "fault"
	EvNote     = "note"
)

func snap(p packet.Generic) packet.Generic {
	switch q := p.(type) {
	case *packet.Publish:
		c := *q
		return &c
	}
	return p
}

func pktBrief(p packet.Generic) string {
	if p == nil {
		return "-"
	}
	switch q := p.(type) {
	case *packet.Publish:
		pl := string(q.Message.Payload)
		if len(pl) > 16 {
			pl = pl[:16] + "…"
		}
		return fmt.Sprintf("PUBLISH(id%d %s q%d r%v d%v %s)", q.ID, q.Message.Topic, q.Message.QOS, q.Message.Retain, q.Dup, pl)
	case *packet.Puback:
		return fmt.Sprintf("PUBACK(%d)", q.ID)
	case *packet.Pubrec:
		return fmt.Sprintf("PUBREC(%d)", q.ID)
	case *packet.Pubrel:
		return fmt.Sprintf("PUBREL(%d)", q.ID)
	case *packet.Pubcomp:
		return fmt.Sprintf("PUBCOMP(%d)", q.ID)
	case *packet.Connect:
		return fmt.Sprintf("CONNECT(%q clean=%v ka=%d)", q.ClientID, q.CleanSession, q.KeepAlive)
	case *packet.Connack:
		return fmt.Sprintf("CONNACK(%d sp=%v)", q.ReturnCode, q.SessionPresent)
	case *packet.Subscribe:
		s := fmt.Sprintf("SUBSCRIBE(%d", q.ID)
		for _, x := range q.Subscriptions {
			s += fmt.Sprintf(" %s:q%d", x.Topic, x.QOS)
		}
		return s + ")"
	case *packet.Suback:
		return fmt.Sprintf("SUBACK(%d %v)", q.ID, q.ReturnCodes)
	case *packet.Unsubscribe:
		return fmt.Sprintf("UNSUBSCRIBE(%d %v)", q.ID, q.Topics)
	case *packet.Unsuback:
		return fmt.Sprintf("UNSUBACK(%d)", q.ID)
	}
	return p.Type().String()
}

// World is one simulated client-side universe.
type World struct {
	Log   *core.Log
	Sched *core.Rand
	Res   *core.Result
	Hist  []*Ev
	Steps int

	Conns []*Conn // index = dial number - 1
	Chunk int

	// dial plan: behaviour of the n-th dial (1-based); default accept
	DialPlan map[int]DialBehaviour
	dials    int

	WriteDelay time.Duration
	ParkN      int

	// SPAfterFirst: the scripted broker keeps the session: every CONNECT with
	// clean-session off that follows an accepted one gets session-present=true
	SPAfterFirst bool
	accepted     int
}

// EnablePark switches lock-site parking on for this run (driver goroutine only).
func (w *World) EnablePark(seed uint64, n int) {
	w.ParkN = n
	core.ParkStart(seed, n)
}

// StopPark releases everything parked and switches parking off.
func (w *World) StopPark() {
	w.Res.Count("lock_site_parks", int64(core.ParkTotal()))
	core.ParkStop()
}

// DialBehaviour scripts what a dial and the broker behind it do.
type DialBehaviour struct {
	Refuse            bool // Dial returns an error
	ConnectUnsendable bool // the first write on the connection fails
	Connack           int  // 0 accept, 1..5 refuse with that code, -1 never answer, -2 answer with a wrong packet
	SessionPresent    bool
	AckMode           int  // 0 prompt, 1 deferred (driver releases), 2 never
	SubFail           bool // SUBACKs carry the failure code
	NoSuback          bool // SUBSCRIBEs are never answered
	DropAfterRecv     int  // cut the link after the broker has read this many packets (0 = off)
	FailSendN         int  // the client's n-th Send on this conn fails (before writing)
	FailSendPost      bool // ... after the packet went out
	FailSendQuiet     bool // ... and nothing else happens: the link stays up and silent (half-dead)
	FailRecvN         int  // the client's n-th Receive fails
}

func NewWorld(seed uint64, res *core.Result) *World {
	return &World{Log: core.NewLog(false), Sched: core.NewRand(core.Derive(seed, "sched")), Res: res,
		DialPlan: map[int]DialBehaviour{}, WriteDelay: 10 * time.Millisecond}
}

func (w *World) ev(e *Ev) *Ev {
	e.Seq = rt.Tick()
	e.At = core.SimNow()
	if e.P != nil {
		e.P = snap(e.P)
	}
	w.Hist = append(w.Hist, e)
	var b strings.Builder
	fmt.Fprintf(&b, "%s c%d", e.K, e.C)
	if e.S != "" {
		b.WriteString(" " + e.S)
	}
	if e.P != nil {
		b.WriteString(" " + pktBrief(e.P))
	}
	if e.Err != nil {
		b.WriteString(" err=" + e.Err.Error())
	}
	if e.N != 0 {
		fmt.Fprintf(&b, " #%d", e.N)
	}
	w.Log.AddAt(e.Seq, b.String())
	return e
}

func (w *World) Note(format string, a ...interface{}) {
	w.ev(&Ev{K: EvNote, S: fmt.Sprintf(format, a...)})
}

/* ---------- the dialer and the client's side of a connection ---------- */

// Dial implements client.Dialer.
func (w *World) Dial(url string) (transport.Conn, error) {
	w.dials++
	n := w.dials
	beh := w.DialPlan[n]
	if beh.Refuse {
		w.ev(&Ev{K: EvDial, C: n, Err: errInjected, S: "refused"})
		w.Res.Count("fault_dial_refused", 1)
		w.Conns = append(w.Conns, nil)
		return nil, errInjected
	}
	link := simnet.NewLink(n)
	c := &Conn{w: w, N: n, Link: link, Beh: beh, cutAtDeliv: -1}
	c.Conn = transport.NewNetConn(link.A)
	link.A2B.Sink = c.onBytes
	link.A2B.SinkEOF = c.onEOF
	if beh.ConnectUnsendable {
		link.A.Fault = func(op string, k int) error {
			if op == "write" && k == 1 {
				w.Res.Count("fault_connect_unsendable", 1)
				return errInjected
			}
			return nil
		}
	}
	w.Conns = append(w.Conns, c)
	w.ev(&Ev{K: EvDial, C: n, S: "ok"})
	return c, nil
}

// Conn is both the client's transport.Conn (with faults) and the scripted
// broker behind it.
type Conn struct {
	transport.Conn
	w    *World
	N    int
	Link *simnet.Link
	Beh  DialBehaviour

	sends, recvs int
	closed       bool
	sentLen      int
	cutAtDeliv   int

	// scripted broker state
	inbuf   []byte
	BRecv   []*Ev
	BSent   []*Ev
	BEOF    bool
	Pending []packet.Generic // deferred acknowledgements
	Connect *packet.Connect
	nextID  uint16
	brecvN  int
}

func (c *Conn) Send(pkt packet.Generic, async bool) error {
	c.sends++
	n := c.sends
	c.w.ev(&Ev{K: EvSend, C: c.N, P: pkt, N: n})
	if c.Beh.FailSendN == n && c.Beh.FailSendQuiet {
		// the write fails, the read side hears nothing: only the client's own
		// Close can end this connection
		c.w.ev(&Ev{K: EvFault, C: c.N, S: "client send fails, link stays up and silent", N: n, P: pkt})
		c.w.Res.Count("fault_send_quiet", 1)
		c.w.ev(&Ev{K: EvSent, C: c.N, P: pkt, N: n, Err: errInjected})
		return errInjected
	}
	if c.Beh.FailSendN == n && !c.Beh.FailSendPost {
		c.w.ev(&Ev{K: EvFault, C: c.N, S: "client send fails before writing", N: n, P: pkt})
		c.w.Res.Count("fault_send_before", 1)
		c.Link.Cut()
		c.w.ev(&Ev{K: EvSent, C: c.N, P: pkt, N: n, Err: errInjected})
		return errInjected
	}
	err := c.Conn.Send(pkt, async)
	if err == nil {
		c.sentLen += pkt.Len()
	}
	if c.Beh.FailSendN == n && c.Beh.FailSendPost && err == nil {
		// the packet reaches the broker, the caller sees an error and the link dies
		c.w.ev(&Ev{K: EvFault, C: c.N, S: "client send fails after the packet went out", N: n, P: pkt})
		c.w.Res.Count("fault_send_after", 1)
		c.cutAtDeliv = c.sentLen
		err = errInjected
	}
	c.w.ev(&Ev{K: EvSent, C: c.N, P: pkt, N: n, Err: err})
	return err
}

func (c *Conn) Receive() (packet.Generic, error) {
	pkt, err := c.Conn.Receive()
	if err == nil {
		c.recvs++
		if c.Beh.FailRecvN == c.recvs {
			c.w.ev(&Ev{K: EvFault, C: c.N, S: "client receive fails, packet dropped", N: c.recvs, P: pkt})
			c.w.Res.Count("fault_receive", 1)
			c.Link.Cut()
			_ = c.Conn.Close()
			pkt, err = nil, errInjected
		}
	}
	c.w.ev(&Ev{K: EvRecv, C: c.N, P: pkt, Err: err, N: c.recvs})
	return pkt, err
}

func (c *Conn) Close() error {
	if !c.closed {
		c.closed = true
		c.w.ev(&Ev{K: EvClose, C: c.N})
	}
	return c.Conn.Close()
}

/* ---------- scripted broker ---------- */

// BSend writes a packet towards the client.
func (c *Conn) BSend(pkt packet.Generic) {
	e := c.w.ev(&Ev{K: EvBSend, C: c.N, P: pkt, N: len(c.BSent) + 1})
	c.BSent = append(c.BSent, e)
	if c.BEOF || c.Link.B2A.Broken() {
		e.S = "lost"
		return
	}
	buf := make([]byte, pkt.Len())
	k, err := pkt.Encode(buf)
	if err != nil {
		panic("scripted broker packet does not encode: " + err.Error())
	}
	_, _ = c.Link.B2A.Write(buf[:k])
}

// Drop cuts the connection from the broker's side.
func (c *Conn) Drop() {
	c.w.ev(&Ev{K: EvFault, C: c.N, S: "broker drops the connection"})
	c.w.Res.Count("fault_broker_drop", 1)
	c.Link.Cut()
}

func (c *Conn) onEOF(err error) {
	if !c.BEOF {
		c.BEOF = true
		c.w.ev(&Ev{K: EvBEOF, C: c.N, Err: err})
	}
}

func (c *Conn) onBytes(b []byte) {
	c.inbuf = append(c.inbuf, b...)
	for {
		l, ty := packet.DetectPacket(c.inbuf)
		if l <= 0 || l > len(c.inbuf) {
			return
		}
		pkt, err := ty.New()
		if err == nil {
			_, err = pkt.Decode(c.inbuf[:l])
		}
		if err != nil {
			c.w.Res.Violate(c.w.Res.Check, c.w.Res.Check+".wire", "undecodable", fmt.Sprintf("the broker cannot decode what the client sent on connection %d: %v", c.N, err))
			c.inbuf = nil
			return
		}
		c.inbuf = c.inbuf[l:]
		c.brecvN++
		e := c.w.ev(&Ev{K: EvBRecv, C: c.N, P: pkt, N: c.brecvN})
		c.BRecv = append(c.BRecv, e)
		c.react(pkt)
		if c.Beh.DropAfterRecv == c.brecvN {
			c.Drop()
			return
		}
	}
}

func (c *Conn) respond(p packet.Generic) {
	switch c.Beh.AckMode {
	case 0:
		c.BSend(p)
	case 1:
		c.Pending = append(c.Pending, p)
	}
}

func (c *Conn) react(pkt packet.Generic) {
	switch q := pkt.(type) {
	case *packet.Connect:
		c.Connect = q
		switch {
		case c.Beh.Connack == -1:
		case c.Beh.Connack == -2:
			c.BSend(packet.NewPingresp())
		default:
			a := packet.NewConnack()
			a.ReturnCode = packet.ConnackCode(c.Beh.Connack)
			if a.ReturnCode == 0 {
				a.SessionPresent = c.Beh.SessionPresent || (c.w.SPAfterFirst && c.w.accepted > 0 && !q.CleanSession)
				c.w.accepted++
			}
			c.BSend(a)
		}
	case *packet.Publish:
		switch q.Message.QOS {
		case 1:
			a := packet.NewPuback()
			a.ID = q.ID
			c.respond(a)
		case 2:
			a := packet.NewPubrec()
			a.ID = q.ID
			c.respond(a)
		}
	case *packet.Pubrel:
		a := packet.NewPubcomp()
		a.ID = q.ID
		c.respond(a)
	case *packet.Subscribe:
		if c.Beh.NoSuback {
			return
		}
		a := packet.NewSuback()
		a.ID = q.ID
		for _, s := range q.Subscriptions {
			if c.Beh.SubFail {
				a.ReturnCodes = append(a.ReturnCodes, packet.QOSFailure)
			} else {
				a.ReturnCodes = append(a.ReturnCodes, s.QOS)
			}
		}
		c.respond(a)
	case *packet.Unsubscribe:
		a := packet.NewUnsuback()
		a.ID = q.ID
		c.respond(a)
	case *packet.Pingreq:
		c.BSend(packet.NewPingresp())
	}
}

/* ---------- the session probe ---------- */

// ProbeSession wraps the real MemorySession, records every operation and can
// fail the n-th one.
type ProbeSession struct {
	W     *World
	Inner *session.MemorySession
	FailN int
	n     int
}

// op counts the operation and decides whether it fails. A failing operation is
// recorded at once; a successful one is recorded by done() after the inner
// session has executed it, so that the history shows the operations in the
// order in which they took effect (a goroutine may be parked at the inner
// session's mutex while another one overtakes it).
func (s *ProbeSession) op(name string, p packet.Generic) (func(), error) {
	s.n++
	n := s.n
	if s.FailN == n {
		s.W.Res.Count("fault_session_op", 1)
		s.W.ev(&Ev{K: EvSess, S: name, P: p, N: n, Err: errInjected})
		return nil, errInjected
	}
	return func() { s.W.ev(&Ev{K: EvSess, S: name, P: p, N: n}) }, nil
}

func (s *ProbeSession) NextID() packet.ID { return s.Inner.NextID() }

func (s *ProbeSession) SavePacket(d session.Direction, p packet.Generic) error {
	done, err := s.op(fmt.Sprintf("save/%d", d), p)
	if err != nil {
		return err
	}
	err = s.Inner.SavePacket(d, p)
	done()
	return err
}

func (s *ProbeSession) LookupPacket(d session.Direction, id packet.ID) (packet.Generic, error) {
	done, err := s.op(fmt.Sprintf("lookup/%d/%d", d, id), nil)
	if err != nil {
		return nil, err
	}
	p, err := s.Inner.LookupPacket(d, id)
	done()
	return p, err
}

func (s *ProbeSession) DeletePacket(d session.Direction, id packet.ID) error {
	done, err := s.op(fmt.Sprintf("delete/%d/%d", d, id), nil)
	if err != nil {
		return err
	}
	err = s.Inner.DeletePacket(d, id)
	done()
	return err
}

func (s *ProbeSession) AllPackets(d session.Direction) ([]packet.Generic, error) {
	done, err := s.op(fmt.Sprintf("all/%d", d), nil)
	if err != nil {
		return nil, err
	}
	l, err := s.Inner.AllPackets(d)
	done()
	return l, err
}

func (s *ProbeSession) Reset() error {
	done, err := s.op("reset", nil)
	if err != nil {
		return err
	}
	err = s.Inner.Reset()
	done()
	return err
}

/* ---------- stepping ---------- */

func wait() { synctest.Wait() }

func (w *World) chunk(n int) int {
	if n > 2048 {
		return n - 1024
	}
	switch {
	case w.Chunk > 0 && n > w.Chunk:
		return w.Chunk
	case w.Chunk < 0 && n > 1:
		if w.Sched.Chance(1, 2) {
			return 1 + w.Sched.Intn(n)
		}
	}
	return n
}

func (w *World) progress() bool {
	did := false
	for _, c := range w.Conns {
		if c == nil {
			continue
		}
		if n := c.Link.A2B.InFlight(); n > 0 && !c.Link.A2B.Broken() {
			k := w.chunk(n)
			if c.cutAtDeliv >= 0 && c.Link.A2B.Delivered+k > c.cutAtDeliv {
				k = c.cutAtDeliv - c.Link.A2B.Delivered
			}
			if k > 0 {
				c.Link.A2B.Deliver(k)
			}
			did = true
		}
		if c.cutAtDeliv >= 0 && c.Link.A2B.Delivered >= c.cutAtDeliv && !c.Link.A2B.Broken() {
			c.cutAtDeliv = -1
			c.Link.Cut()
			did = true
		}
		if c.Link.A2B.FinPending() {
			c.Link.A2B.DeliverFIN()
			did = true
		}
		if n := c.Link.B2A.InFlight(); n > 0 && !c.Link.B2A.Broken() {
			c.Link.B2A.Deliver(w.chunk(n))
			did = true
		}
		if c.Link.B2A.FinPending() {
			c.Link.B2A.DeliverFIN()
			did = true
		}
	}
	if core.ParkedCount() > 0 && (!did || w.Sched.Chance(1, 4)) {
		// a short timer that is about to fire (write-delay flush) may go first:
		// a parked goroutine then sits between two statements while a buffered
		// packet travels and its answer comes back
		nw := rt.NextWake()
		if d := time.Duration(nw - time.Now().UnixNano()); !did && nw != 0 && d <= w.shortHorizon() && w.Sched.Chance(1, 2) {
			if d < 0 {
				d = 0
			}
			time.Sleep(d)
			did = true
		} else if core.ReleaseParked(w.Sched) {
			did = true
		}
	}
	return did
}

func (w *World) shortHorizon() time.Duration { return w.WriteDelay + 2*time.Millisecond }

// Settle runs to quiescence; only write-delay timers fire.
func (w *World) Settle() {
	for i := 0; i < 100000; i++ {
		wait()
		w.Steps++
		if w.progress() {
			continue
		}
		if nw := rt.NextWake(); nw != 0 {
			d := time.Duration(nw - time.Now().UnixNano())
			if d <= w.shortHorizon() {
				if d < 0 {
					d = 0
				}
				time.Sleep(d)
				continue
			}
		}
		return
	}
	w.Res.Violate(w.Res.Check, w.Res.Check+".livelock", "settle", "no quiescence within 100000 steps")
}

// Advance lets virtual time pass, then settles.
func (w *World) Advance(d time.Duration) {
	w.Note("advance %v", d)
	time.Sleep(d)
	w.Settle()
}

// Last returns the most recent connection (nil if the last dial was refused).
func (w *World) Last() *Conn {
	if len(w.Conns) == 0 {
		return nil
	}
	return w.Conns[len(w.Conns)-1]
}

// Run lets the system run for d of virtual time: every timer that becomes due
// fires (reconnect back-off, connect/resubscribe timeouts, keep-alive), the
// network is drained in between.
func (w *World) Run(d time.Duration) {
	end := time.Now().Add(d)
	for i := 0; i < 100000; i++ {
		w.Settle()
		nw := rt.NextWake()
		if nw == 0 || nw > end.UnixNano() {
			break
		}
		if s := time.Duration(nw - time.Now().UnixNano()); s > 0 {
			time.Sleep(s)
		} else {
			time.Sleep(0)
		}
	}
	if s := time.Until(end); s > 0 {
		time.Sleep(s)
	}
	w.Settle()
}
