package cli

import (
	"errors"
	"fmt"
	"strings"
	"testing"
	"time"

	"github.com/256dpi/gomqtt/client"
	"github.com/256dpi/gomqtt/packet"
	"github.com/256dpi/gomqtt/session"

	"verif/sim/core"
	"verif/sim/rt"
)

// C10: inbound QoS 2 exactly once per handshake, handshakes finish (also for
// unknown ids), QoS 0/1 passed on as they arrive, no acknowledgement for a
// delivery the application rejected.

// ExpandC10 / RunC10: the check is registered by the e2e package, which adds an
// end-to-end seed class (real clients against the real broker) to it.
func ExpandC10(t *testing.T, seed uint64, tier string) []*core.Plan { return expandC10(t, seed, tier) }

// RunC10 runs one plan of the scripted-peer classes.
func RunC10(t *testing.T, p *core.Plan) *core.Result { return runC10(t, p) }

var errRejected = errors.New("application rejects the message")

func expandC10(t *testing.T, seed uint64, tier string) []*core.Plan {
	r := core.NewRand(core.Derive(seed, "plan"))
	p := &core.Plan{Check: "C10", Seed: seed}
	p.SetKnob("chunk", r.Pick(0, 0, -1, 1))
	p.SetKnob("early", r.Pick(0, 0, 0, 1))
	p.SetKnob("defer", r.Pick(0, 1))
	if r.Chance(1, 4) {
		p.SetKnob("cberr", r.Range(1, 5))
	} else if r.Chance(1, 8) {
		// the application installed no callback at all (it is optional): every
		// handshake must still be answered and finished
		p.SetKnob("nocb", 1)
	}
	n := r.Range(1, 12)
	tag := 0
	for i := 0; i < n; i++ {
		switch r.Weighted([]int{10, 2, 4, 2, 1, 2, 2, 3, 2}) {
		case 0:
			tag++
			p.Items = append(p.Items, core.Item{K: "bpub", A: r.Pick(0, 1, 2, 2, 2), D: tag})
		case 1:
			p.Items = append(p.Items, core.Item{K: "bdup"})
		case 2:
			p.Items = append(p.Items, core.Item{K: "brel"})
		case 3:
			p.Items = append(p.Items, core.Item{K: "brel-again"})
		case 4:
			p.Items = append(p.Items, core.Item{K: "brel-unknown", A: r.Pick(7, 9, 65535)})
		case 5:
			p.Items = append(p.Items, core.Item{K: "reconnect"})
		case 6:
			p.Items = append(p.Items, core.Item{K: "settle"})
		case 7:
			// the application's own traffic shares the session (and the packet id
			// space of the other direction) with the inbound handshakes
			p.Items = append(p.Items, core.Item{K: "app", A: r.Intn(4)})
		case 8:
			// the next callback takes its time; meanwhile the client is closed (0),
			// the connection is lost (1), or nothing happens (2)
			p.Items = append(p.Items, core.Item{K: "hold", A: r.Intn(4)})
		}
	}
	if r.Chance(1, 6) {
		// a clean session: one connection, nothing is resumed (neither side keeps
		// state); within the connection every handshake must still be answered
		p.SetKnob("cleansess", 1)
		var items []core.Item
		for _, it := range p.Items {
			if it.K != "reconnect" && it.K != "hold" {
				items = append(items, it)
			}
		}
		p.Items = items
		return []*core.Plan{p}
	}
	out := []*core.Plan{p}
	// fault enumeration: every packet the client writes on its first two connections
	base := runC10(t, p)
	for conn := 1; conn <= 2; conn++ {
		ns := int(base.Counters[fmt.Sprintf("conn%d_client_sends", conn)])
		for k := 2; k <= ns; k++ { // k=1 is the CONNECT
			for post := 0; post < 2; post++ {
				q := clonePlan(p)
				q.SetKnob("fconn", conn)
				q.SetKnob("fsend", k)
				q.SetKnob("fpost", post)
				out = append(out, q)
			}
		}
	}
	return out
}

func clonePlan(p *core.Plan) *core.Plan {
	q := *p
	q.Items = append([]core.Item{}, p.Items...)
	q.Knobs = map[string]int{}
	for k, v := range p.Knobs {
		q.Knobs[k] = v
	}
	return &q
}

type inFlow struct {
	id      packet.ID
	tag     int
	qos     int
	gotRec  bool
	done    bool
	relSent bool
}

type cbRec struct {
	tag  int
	qos  int
	seq  uint64
	conn int
	ret  error
}

type c10Run struct {
	w      *World
	res    *core.Result
	sess   *ProbeSession
	cur    *client.Client
	dead   bool
	flows  []*inFlow
	cbs    []cbRec
	cbN    int
	cberr  int
	early  bool
	nocb   bool
	clean  bool
	seen   map[*Conn]int
	closer chan struct{}
	// held callbacks
	holdNext bool
	holdAct  int
	held     chan struct{}
	appN     int
}

func (r *c10Run) open(id packet.ID) *inFlow {
	for _, f := range r.flows {
		if f.id == id && !f.done {
			return f
		}
	}
	return nil
}

func (r *c10Run) connect() {
	w := r.w
	c := client.New()
	c.Session = r.sess
	r.dead = false
	dial := w.dials + 1
	c.Callback = func(msg *packet.Message, err error) error {
		if err != nil {
			w.ev(&Ev{K: EvCallback, C: dial, Err: err})
			r.dead = true
			return nil
		}
		r.cbN++
		rec := cbRec{qos: int(msg.QOS), conn: dial}
		fmt.Sscanf(string(msg.Payload), "#%d#", &rec.tag)
		if r.cbN == r.cberr {
			rec.ret = errRejected
		}
		if r.holdNext && rec.ret == nil {
			r.holdNext = false
			r.held = make(chan struct{})
			w.ev(&Ev{K: EvNote, C: dial, S: fmt.Sprintf("callback for message #%d takes its time", rec.tag)})
			<-r.held
		}
		rec.seq = w.ev(&Ev{K: EvCallback, C: dial, S: fmt.Sprintf("message #%d q%d -> %v", rec.tag, rec.qos, rec.ret)}).Seq
		r.cbs = append(r.cbs, rec)
		return rec.ret
	}
	if r.nocb {
		c.Callback = nil
	}
	r.cur = c
	cfg := client.NewConfigWithClientID("sim://broker", "c10")
	cfg.Dialer = w
	cfg.CleanSession = r.clean
	cfg.KeepAlive = "0s"
	cfg.AlwaysAnnounceOnPublish = r.early
	f, err := c.Connect(cfg)
	if err != nil {
		r.dead = true
		return
	}
	w.Settle()
	_ = f.Wait(time.Millisecond)
}

func (r *c10Run) bc() *Conn { return r.w.Last() }

func (r *c10Run) sendPublish(f *inFlow, dup bool) {
	p := packet.NewPublish()
	p.ID, p.Dup = f.id, dup
	p.Message = packet.Message{Topic: "in/t", QOS: packet.QOS(f.qos), Payload: []byte(fmt.Sprintf("#%d#", f.tag))}
	r.bc().BSend(p)
}

func (r *c10Run) sendRel(id packet.ID) {
	a := packet.NewPubrel()
	a.ID = id
	r.bc().BSend(a)
}

// absorb updates the broker-side flows from what the client sent.
func (r *c10Run) absorb(prompt bool) {
	for _, c := range r.w.Conns {
		if c == nil {
			continue
		}
		for _, e := range c.BRecv[r.seen[c]:] {
			switch q := e.P.(type) {
			case *packet.Puback:
				if f := r.open(q.ID); f != nil && f.qos == 1 {
					f.done = true
				}
			case *packet.Pubrec:
				if f := r.open(q.ID); f != nil && f.qos == 2 {
					f.gotRec = true
					if prompt && c == r.bc() && !c.BEOF && !f.relSent {
						f.relSent = true
						r.sendRel(f.id)
					}
				}
			case *packet.Pubcomp:
				if f := r.open(q.ID); f != nil && f.qos == 2 && f.gotRec {
					f.done = true
				}
			case *packet.Subscribe:
				a := packet.NewSuback()
				a.ID = q.ID
				for _, sub := range q.Subscriptions {
					a.ReturnCodes = append(a.ReturnCodes, sub.QOS)
				}
				c.BSend(a)
			case *packet.Unsubscribe:
				a := packet.NewUnsuback()
				a.ID = q.ID
				c.BSend(a)
			case *packet.Publish:
				switch q.Message.QOS {
				case 1:
					a := packet.NewPuback()
					a.ID = q.ID
					c.BSend(a)
				case 2:
					a := packet.NewPubrec()
					a.ID = q.ID
					c.BSend(a)
				}
			case *packet.Pubrel:
				a := packet.NewPubcomp()
				a.ID = q.ID
				c.BSend(a)
			}
		}
		r.seen[c] = len(c.BRecv)
	}
}

// resume: the client is replaced by a new one on the same session; the broker
// retransmits what MQTT lets it retransmit.
func (r *c10Run) resume() {
	old := r.cur
	r.w.ev(&Ev{K: EvNote, C: r.w.dials, S: "harness-takes-over"})
	if bc := r.bc(); bc != nil && !bc.BEOF {
		bc.Drop()
	}
	r.w.Settle()
	done := make(chan struct{})
	go func() { _ = old.Close(); close(done) }()
	r.w.Settle()
	for r.held != nil {
		// a callback that takes its time returns now
		close(r.held)
		r.held = nil
		r.w.Settle()
	}
	select {
	case <-done:
	default:
		r.res.Violate("C10", "C10.close-blocks", "close", "Close of the old client did not return")
	}
	r.connect()
	if r.dead || r.bc() == nil {
		return
	}
	for _, f := range r.flows {
		if f.done || f.qos == 0 {
			continue
		}
		f.relSent = false
		if f.qos == 2 && f.gotRec {
			f.relSent = true
			r.sendRel(f.id)
		} else {
			r.sendPublish(f, true)
		}
	}
}

func runC10(t *testing.T, p *core.Plan) *core.Result {
	res := &core.Result{Check: "C10", Seed: p.Seed}
	var w *World
	ptxt := core.Bubble(t, p.Seed, p.Yield, func() {
		w = NewWorld(p.Seed, res)
		w.Chunk = p.Knob("chunk", 0)
		r := &c10Run{w: w, res: res, seen: map[*Conn]int{}, cberr: p.Knob("cberr", 0), early: p.Knob("early", 0) == 1, nocb: p.Knob("nocb", 0) == 1, clean: p.Knob("cleansess", 0) == 1}
		r.sess = &ProbeSession{W: w, Inner: session.NewMemorySession()}
		prompt := p.Knob("defer", 0) == 0
		fconn, fsend, fpost := p.Knob("fconn", 0), p.Knob("fsend", 0), p.Knob("fpost", 0) == 1
		for d := 1; d <= 12; d++ {
			beh := DialBehaviour{AckMode: 2} // the scripted broker's flows are driven by this check
			if d == fconn {
				beh.FailSendN, beh.FailSendPost = fsend, fpost
			}
			w.DialPlan[d] = beh
		}
		r.connect()
		var lastDone *inFlow
		step := func() {
			w.Settle()
			r.absorb(prompt)
			w.Settle()
			r.absorb(prompt)
			for r.held != nil {
				// the processor sits in the application's callback
				res.Count("callbacks_held", 1)
				var closed chan struct{}
				switch r.holdAct {
				case 0:
					closed = make(chan struct{})
					cl := r.cur
					w.ev(&Ev{K: EvNote, C: w.dials, S: "harness-takes-over"})
					go func() { _ = cl.Close(); close(closed) }()
				case 1:
					if bc := r.bc(); bc != nil && !bc.BEOF {
						bc.Drop()
					}
				case 3:
					// the connection is lost and it is the application's own traffic
					// that notices (a publish fails: the client is cleaned up while
					// its processor still sits in the callback); then Close is called.
					// If Close returns although the callback has not, the application
					// believes the client is gone and resumes the session elsewhere.
					if bc := r.bc(); bc != nil && !bc.BEOF {
						bc.Drop()
					}
					w.Settle()
					cl := r.cur
					go func() { _, _ = cl.Publish("out/t", []byte("lost"), 1, false) }()
					w.Settle()
					closed = make(chan struct{})
					w.ev(&Ev{K: EvNote, C: w.dials, S: "harness-takes-over"})
					go func() { _ = cl.Close(); close(closed) }()
					w.Settle()
					select {
					case <-closed:
						// Close is back while the old client's callback is still
						// running: carry on like an application that trusts Close
						res.Count("close_returned_during_callback", 1)
						held := r.held
						r.held = nil
						r.connect()
						if !r.dead && r.bc() != nil {
							for _, f := range r.flows {
								if f.done || f.qos == 0 {
									continue
								}
								f.relSent = false
								if f.qos == 2 && f.gotRec {
									f.relSent = true
									r.sendRel(f.id)
								} else {
									r.sendPublish(f, true)
								}
							}
						}
						w.Settle()
						r.absorb(prompt)
						w.Settle()
						close(held)
						w.Settle()
						r.absorb(prompt)
						continue
					default:
					}
				}
				w.Settle()
				close(r.held)
				r.held = nil
				w.Settle()
				if closed != nil {
					select {
					case <-closed:
					default:
						res.Violate("C10", "C10.close-blocks", "after-callback", "Close, called while the application callback was running, did not return after the callback had returned")
					}
					r.dead = true
				}
				r.absorb(prompt)
			}
			if (r.dead || (r.bc() != nil && r.bc().BEOF)) && w.dials < 11 && !r.clean {
				r.resume()
				w.Settle()
				r.absorb(prompt)
				w.Settle()
				r.absorb(prompt)
			}
		}
		for _, it := range p.Items {
			if r.bc() == nil {
				break
			}
			switch it.K {
			case "bpub":
				f := &inFlow{tag: it.D, qos: it.A}
				switch it.A {
				case 2:
					for c := packet.ID(1); c <= 3; c++ {
						if r.open(c) == nil {
							f.id = c
							break
						}
					}
					if f.id == 0 {
						continue
					}
				case 1:
					f.id = packet.ID(100 + it.D)
				default:
					f.done = true
				}
				r.flows = append(r.flows, f)
				r.sendPublish(f, false)
			case "bdup":
				for _, f := range r.flows {
					if !f.done && f.qos == 2 && !f.relSent {
						r.sendPublish(f, true)
						res.Count("duplicate_publishes", 1)
						break
					}
				}
			case "brel":
				for _, f := range r.flows {
					if !f.done && f.qos == 2 && f.gotRec && !f.relSent {
						f.relSent = true
						r.sendRel(f.id)
					}
				}
			case "brel-again":
				for _, f := range r.flows {
					if f.done && f.qos == 2 {
						lastDone = f
					}
				}
				if lastDone != nil && r.open(lastDone.id) == nil {
					r.sendRel(lastDone.id)
					res.Count("repeated_pubrels", 1)
				}
			case "brel-unknown":
				if r.open(packet.ID(it.A)) == nil {
					r.sendRel(packet.ID(it.A))
					res.Count("unknown_pubrels", 1)
				}
			case "reconnect":
				step()
				if w.dials < 11 {
					r.resume()
				}
			case "hold":
				r.holdNext, r.holdAct = true, it.A
				continue
			case "app":
				r.appN++
				cl, n, kind := r.cur, r.appN, it.A
				go func() {
					switch kind {
					case 0:
						_, _ = cl.Subscribe(fmt.Sprintf("app/%d", n), 1)
					case 1:
						_, _ = cl.Unsubscribe(fmt.Sprintf("app/%d", n))
					default:
						_, _ = cl.Publish("out/t", []byte(fmt.Sprintf("out%d", n)), packet.QOS(kind-1), false)
					}
				}()
				res.Count("app_commands", 1)
			}
			step()
		}
		// completion: the broker finishes every flow
		for round := 0; round < 6; round++ {
			if r.bc() == nil {
				break
			}
			step()
			for _, f := range r.flows {
				if !f.done && f.qos == 2 && f.gotRec && !f.relSent {
					f.relSent = true
					r.sendRel(f.id)
				}
			}
			step()
			open := 0
			for _, f := range r.flows {
				if !f.done {
					open++
				}
			}
			if open == 0 {
				break
			}
			if round >= 2 && w.dials < 11 && !r.clean {
				r.resume()
			}
		}
		w.Settle()
		r.absorb(prompt)
		for i, c := range w.Conns {
			if c != nil && i < 2 {
				res.Count(fmt.Sprintf("conn%d_client_sends", i+1), int64(c.sends))
			}
		}
		r.judge(p)
		done := make(chan struct{})
		go func() { _ = r.cur.Close(); close(done) }()
		w.Settle()
		time.Sleep(time.Hour)
		w.Settle()
		select {
		case <-done:
		default:
			res.Violate("C10", "C10.close-blocks", "final", "Close did not return within one virtual hour")
		}
		for _, c := range w.Conns {
			if c != nil {
				c.Link.Cut()
			}
		}
		w.Settle()
		if l := core.Leaked(); len(l) > 0 {
			res.Violate("C10", "C10.leak", l[0], fmt.Sprintf("%d goroutines alive after everything was closed: %v", len(l), l))
		}
		res.Yields = rt.Yields()
		res.SimNanos = int64(core.SimNow())
	})
	if ptxt != "" && !strings.Contains(ptxt, "deadlock") {
		res.Violate("C10", "C10.panic", "bubble", ptxt)
	}
	if w != nil {
		res.Hash, res.Events, res.Steps = w.Log.Hash(), w.Log.N, w.Steps
		res.Sched = w.Log.Hash()
	}
	if p.Seed%31 == 0 && p.Knob("fsend", 0) == 0 {
		res.Sample = p.Brief(14)
	}
	return res
}

func (r *c10Run) judge(p *core.Plan) {
	w, res := r.w, r.res
	accepted := map[int]int{}
	rejected := map[int]bool{}
	for _, cb := range r.cbs {
		if cb.ret == nil {
			accepted[cb.tag]++
		} else {
			rejected[cb.tag] = true
		}
	}
	// per connection walk: answers and ordering
	for _, c := range w.Conns {
		if c == nil {
			continue
		}
		type arrival struct {
			seq uint64
			p   packet.Generic
		}
		var arr []arrival
		rejectedHere := map[packet.ID]uint64{}
		closedAt := uint64(0)
		harnessAt := uint64(0) // from here on the harness itself closes things
		for _, e := range w.Hist {
			if e.C != c.N {
				continue
			}
			switch e.K {
			case EvRecv:
				if e.Err == nil && e.P != nil {
					arr = append(arr, arrival{e.Seq, e.P})
				}
			case EvClose:
				if closedAt == 0 {
					closedAt = e.Seq
				}
			case EvNote:
				if e.S == "harness-takes-over" && harnessAt == 0 {
					harnessAt = e.Seq
				}
			}
		}
		// callback order of QoS 0/1 (and early-mode QoS 2) == arrival order
		var wantOrder, gotOrder []int
		for _, a := range arr {
			if q, ok := a.p.(*packet.Publish); ok && (q.Message.QOS <= 1 || r.early) {
				var tg int
				fmt.Sscanf(string(q.Message.Payload), "#%d#", &tg)
				wantOrder = append(wantOrder, tg)
			}
		}
		for _, cb := range r.cbs {
			if cb.conn == c.N && (cb.qos <= 1 || r.early) {
				gotOrder = append(gotOrder, cb.tag)
			}
		}
		for i := range gotOrder {
			if i >= len(wantOrder) || gotOrder[i] != wantOrder[i] {
				res.Violate("C10", "C10.callback-order", "qos01", fmt.Sprintf("connection %d: messages arrived in the order %v, the application saw %v", c.N, wantOrder, gotOrder))
				break
			}
		}
		// rejected deliveries: no acknowledgement afterwards, connection closed
		for _, cb := range r.cbs {
			if cb.conn != c.N || cb.ret == nil {
				continue
			}
			res.Count("callback_rejections", 1)
			if closedAt == 0 || (harnessAt != 0 && closedAt > harnessAt) {
				res.Violate("C10", "C10.rejected", "not-closed", fmt.Sprintf("the client did not close connection %d after the application rejected message #%d (the broker would never redeliver it)", c.N, cb.tag))
			}
			// the arrival that led to this callback: the latest PUBLISH carrying the
			// tag (QoS 0/1, early mode) or the latest PUBREL of its id (default mode)
			var arrSeq uint64
			var arrID packet.ID
			for _, a := range arr {
				if a.seq > cb.seq {
					break
				}
				switch q := a.p.(type) {
				case *packet.Publish:
					if string(q.Message.Payload) == fmt.Sprintf("#%d#", cb.tag) {
						arrID = q.ID
						if q.Message.QOS <= 1 || r.early {
							arrSeq = a.seq
						}
					}
				case *packet.Pubrel:
					if q.ID == arrID && cb.qos == 2 && !r.early {
						arrSeq = a.seq
					}
				}
			}
			for _, e := range w.Hist {
				if e.C == c.N && e.K == EvSend && e.Seq > arrSeq && arrSeq != 0 {
					bad := false
					switch q := e.P.(type) {
					case *packet.Puback:
						bad = q.ID == arrID || e.Seq > cb.seq
					case *packet.Pubcomp:
						bad = q.ID == arrID || e.Seq > cb.seq
					case *packet.Pubrec:
						bad = q.ID == arrID || e.Seq > cb.seq
					}
					if bad {
						res.Violate("C10", "C10.rejected", "acknowledged", fmt.Sprintf("connection %d: %s was written for message #%d although the application rejected that delivery", c.N, pktBrief(e.P), cb.tag))
					}
				}
			}
			_ = rejectedHere
		}
		// every QoS 2 PUBLISH answered by PUBREC, every PUBREL by PUBCOMP, every
		// QoS 1 PUBLISH by PUBACK - on a connection that stayed up and was not
		// ended by a rejection
		ended := closedAt != 0 || c.BEOF
		if !ended {
			sent := map[string]int{}
			for _, e := range w.Hist {
				if e.C == c.N && e.K == EvSent && e.Err == nil {
					switch q := e.P.(type) {
					case *packet.Pubrec:
						sent[fmt.Sprintf("rec%d", q.ID)]++
					case *packet.Pubcomp:
						sent[fmt.Sprintf("comp%d", q.ID)]++
					case *packet.Puback:
						sent[fmt.Sprintf("ack%d", q.ID)]++
					}
				}
			}
			need := map[string]int{}
			for _, a := range arr {
				switch q := a.p.(type) {
				case *packet.Publish:
					if q.Message.QOS == 2 {
						need[fmt.Sprintf("rec%d", q.ID)]++
					} else if q.Message.QOS == 1 {
						need[fmt.Sprintf("ack%d", q.ID)]++
					}
				case *packet.Pubrel:
					need[fmt.Sprintf("comp%d", q.ID)]++
				}
			}
			for k, n := range need {
				if sent[k] < n {
					rule, key := "C10.answered", "pubrec"
					if strings.HasPrefix(k, "comp") {
						key = "pubcomp"
					} else if strings.HasPrefix(k, "ack") {
						key = "puback"
					}
					res.Violate("C10", rule, key, fmt.Sprintf("connection %d stayed up: %d packets requiring %s arrived, the client wrote %d", c.N, n, k, sent[k]))
				}
			}
		}
	}
	// exactly once per handshake (default mode)
	done2 := 0
	for _, f := range r.flows {
		if f.qos != 2 {
			continue
		}
		if !r.early && accepted[f.tag] > 1 {
			res.Violate("C10", "C10.exactly-once", "delivered-twice", fmt.Sprintf("QoS 2 message #%d (id %d) was passed to the application %d times (accepted each time)", f.tag, f.id, accepted[f.tag]))
		}
		if f.done {
			done2++
			if accepted[f.tag] == 0 && !r.nocb {
				res.Violate("C10", "C10.exactly-once", "never-delivered", fmt.Sprintf("the handshake of QoS 2 message #%d completed (PUBCOMP sent) but the application never accepted it", f.tag))
			}
		}
	}
	// handshakes terminate for a legal sender
	open := 0
	for _, f := range r.flows {
		if !f.done {
			open++
		}
	}
	if open > 0 && r.bc() != nil && !r.bc().BEOF && !r.dead && r.w.dials < 11 {
		res.Violate("C10", "C10.handshake-terminates", "stuck", fmt.Sprintf("%d of %d inbound handshakes never completed although the sender retransmitted legally and the connection is up", open, len(r.flows)))
	}
	res.Count("flows", int64(len(r.flows)))
	res.Count("qos2_completed", int64(done2))
	res.Count("callbacks", int64(len(r.cbs)))
	res.Count("client_connections", int64(r.w.dials))
	if r.clean {
		res.Count("clean_session_runs", 1)
	}
	if r.nocb {
		res.Count("runs_without_callback", 1)
	}
	if p.Knob("fsend", 0) != 0 {
		res.Count("ack_write_faults", 1)
	}
	res.Nontrivial = len(r.flows) > 0
	res.State = fmt.Sprintf("%d/%d/%d", len(r.flows), done2, r.w.dials)
}
