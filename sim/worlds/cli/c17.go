package cli

import (
	"fmt"
	"sort"
	"strings"
	"testing"
	"time"

	"github.com/256dpi/gomqtt/client"
	"github.com/256dpi/gomqtt/packet"
	"github.com/256dpi/gomqtt/session"

	"verif/sim/core"
	"verif/sim/rt"
)

// C17: the Service survives any failure sequence: reconnects, resubscribes
// exactly the desired set, keeps command order and futures, Stop always returns.

func init() {
	core.Register(&core.Check{ID: "C17", Expand: expandC17, Run: runC17})
}

var svcTopics = []string{"s/a", "s/b", "s/c", "s/+", "s/#", "s", "s/a/x"}

func expandC17(_ *testing.T, seed uint64, tier string) []*core.Plan {
	r := core.NewRand(core.Derive(seed, "plan"))
	p := &core.Plan{Check: "C17", Seed: seed}
	p.SetKnob("chunk", r.Pick(0, 0, -1, 1))
	p.SetKnob("clean", r.Pick(0, 0, 1))
	p.SetKnob("actors", r.Pick(1, 2, 3))
	p.Yield = r.Pick(0, 0, 0, 8)
	if p.Knob("clean", 0) == 0 && r.Chance(1, 3) {
		p.SetKnob("sp", 1) // the broker reports the session as present on every reconnect
	}
	// failure schedule of the dials
	nf := r.Range(0, 6)
	for i := 0; i < nf; i++ {
		p.Items = append(p.Items, core.Item{K: "fail", A: r.Pick(0, 1, 2, 3, 4, 5, 5, 6, 7, 8, 8), B: r.Range(1, 6)})
	}
	p.Items = append(p.Items, core.Item{K: "start"})
	tag := 0
	n := r.Range(3, 20)
	for i := 0; i < n; i++ {
		switch r.Weighted([]int{6, 2, 5, 8, 3, 1, 1, 1}) {
		case 7:
			// Stop and Start called from two goroutines at the same moment
			p.Items = append(p.Items, core.Item{K: "stopstart", A: r.Intn(2)})
		case 0:
			tag++
			p.Items = append(p.Items, core.Item{K: "sub", A: r.Intn(3), B: r.Intn(len(svcTopics)), D: tag})
		case 1:
			tag++
			p.Items = append(p.Items, core.Item{K: "unsub", B: r.Intn(len(svcTopics)), D: tag})
		case 2:
			tag++
			p.Items = append(p.Items, core.Item{K: "pub", A: r.Intn(3), D: tag})
		case 3:
			p.Items = append(p.Items, core.Item{K: "run", A: r.Pick(0, 5, 60, 200, 1000, 6000, 12000)})
		case 4:
			p.Items = append(p.Items, core.Item{K: "drop"})
		case 5:
			p.Items = append(p.Items, core.Item{K: "stop", A: r.Intn(2)}, core.Item{K: "run", A: r.Pick(0, 100)}, core.Item{K: "start"})
		case 6:
			p.Items = append(p.Items, core.Item{K: "fail", A: r.Pick(1, 2, 3, 4, 5, 6, 7, 8, 8), B: r.Range(1, 6)})
		}
	}
	// small command queue (one run in four, drawn from a stream of its own so that
	// the plans of the other runs stay what they were): a single caller, so that
	// the order of issue is defined while calls block on a full queue, and bursts
	// of publishes issued back to back from that caller
	rq := core.NewRand(core.Derive(seed, "queue"))
	if rq.Chance(1, 4) {
		p.SetKnob("qs", rq.Pick(1, 2, 3))
		p.SetKnob("actors", 1)
		nb := rq.Range(1, 3)
		for i := 0; i < nb; i++ {
			pos := 0
			for j, it := range p.Items {
				if it.K == "start" {
					pos = j + 1
					break
				}
			}
			pos += rq.Intn(len(p.Items) - pos + 1)
			b := core.Item{K: "burst", A: rq.Range(3, 8), B: rq.Intn(3), D: 1000 + 100*i}
			items := append([]core.Item{}, p.Items[:pos]...)
			items = append(items, b)
			if rq.Chance(1, 2) {
				items = append(items, core.Item{K: "run", A: rq.Pick(5, 60, 1000, 6000, 12000)})
			}
			p.Items = append(items, p.Items[pos:]...)
		}
	}
	return []*core.Plan{p}
}

func behaviourOf(kind, k int) DialBehaviour {
	switch kind {
	case 1:
		return DialBehaviour{Refuse: true}
	case 2:
		return DialBehaviour{ConnectUnsendable: true}
	case 3:
		return DialBehaviour{Connack: -1}
	case 4:
		return DialBehaviour{Connack: 5}
	case 5:
		return DialBehaviour{DropAfterRecv: 1 + k}
	case 6:
		return DialBehaviour{SubFail: true}
	case 7:
		return DialBehaviour{NoSuback: true}
	case 8:
		// the client's k-th write on this connection fails (k=1 is the CONNECT)
		return DialBehaviour{FailSendN: 1 + k, FailSendPost: k%2 == 0}
	}
	return DialBehaviour{}
}

type svcCmd struct {
	kind   string // sub, unsub, pub
	tag    int
	topic  string
	qos    int
	issued uint64
	// the call came back only after QueueTimeout: the command never entered the
	// queue (its future is cancelled at once) and has no effect whatsoever
	neverQueued bool
	fut    *futRec
	epoch  int // Start/Stop generation in which it was issued
}

// dispatchedBefore reports whether the packet of command c entered a connection
// before tick `before`. Publishes carry their tag; a (un)subscribe is only
// judged if no other command of the same kind, topic and QoS was issued, so
// that the packet on the wire is attributable.
func dispatchedBefore(w *World, cmds []*svcCmd, c *svcCmd, before uint64) bool {
	if c.kind != "pub" {
		for _, o := range cmds {
			if o != c && o.kind == c.kind && o.topic == c.topic && (c.kind == "unsub" || o.qos == c.qos) {
				return false
			}
		}
	}
	for _, e := range w.Hist {
		if e.K != EvSend || e.Seq >= before || e.Seq < c.issued {
			continue
		}
		switch q := e.P.(type) {
		case *packet.Publish:
			if c.kind == "pub" && string(q.Message.Payload) == fmt.Sprintf("#%d#", c.tag) {
				return true
			}
		case *packet.Subscribe:
			if c.kind == "sub" && len(q.Subscriptions) == 1 && q.Subscriptions[0].Topic == c.topic && int(q.Subscriptions[0].QOS) == c.qos {
				return true
			}
		case *packet.Unsubscribe:
			if c.kind == "unsub" && len(q.Topics) == 1 && q.Topics[0] == c.topic {
				return true
			}
		}
	}
	return false
}

func runC17(t *testing.T, p *core.Plan) *core.Result {
	res := &core.Result{Check: "C17", Seed: p.Seed}
	var w *World
	ptxt := core.Bubble(t, p.Seed, p.Yield, func() {
		w = NewWorld(p.Seed, res)
		w.Chunk = p.Knob("chunk", 0)
		w.SPAfterFirst = p.Knob("sp", 0) == 1
		svc := client.NewService()
		if qs := p.Knob("qs", 0); qs > 0 {
			svc = client.NewService(qs)
		}
		sess := &ProbeSession{W: w, Inner: session.NewMemorySession()}
		svc.Session = sess
		online, offline := 0, 0
		svc.OnlineCallback = func(resumed bool) {
			online++
			w.ev(&Ev{K: EvCallback, S: fmt.Sprintf("online resumed=%v", resumed)})
		}
		svc.OfflineCallback = func() {
			offline++
			w.ev(&Ev{K: EvCallback, S: "offline"})
		}
		svc.ErrorCallback = func(err error) { w.ev(&Ev{K: EvCallback, S: "error", Err: err}) }
		svc.MessageCallback = func(m *packet.Message) error { return nil }
		cfg := client.NewConfigWithClientID("sim://broker", "svc")
		cfg.Dialer = w
		cfg.CleanSession = p.Knob("clean", 0) == 1
		cfg.KeepAlive = "30s"
		r := &cliRun{w: w, res: res}
		for i := 0; i < p.Knob("actors", 1); i++ {
			a := &actor{ch: make(chan func(), 1)}
			r.actors = append(r.actors, a)
			go func() {
				for f := range a.ch {
					f()
					a.busy = false
				}
			}()
		}
		var cmds []*svcCmd
		epoch, running := 0, false
		stopsCleared := map[int]bool{}
		nextPlanned := 1
		for _, it := range p.Items {
			switch it.K {
			case "fail":
				for w.DialPlan[nextPlanned] != (DialBehaviour{}) || nextPlanned <= w.dials {
					nextPlanned++
				}
				w.DialPlan[nextPlanned] = behaviourOf(it.A, it.B)
				nextPlanned++
			case "start":
				r.call("start", func() {
					if svc.Start(cfg) {
						running = true
						epoch++
					}
				})
				w.Settle()
			case "stopstart":
				// both calls are in flight together (needs two idle actors); which
				// one takes the service mutex first is the scheduler's choice
				clear := it.A == 1
				e := epoch
				r.call("stop", func() {
					if svc.Stop(clear) {
						running = false
						if clear {
							stopsCleared[e] = true
						}
					}
				})
				r.call("start", func() {
					if svc.Start(cfg) {
						running = true
						epoch++
					}
				})
				res.Count("concurrent_stop_start", 1)
				w.Run(11 * time.Second)
			case "stop":
				clear := it.A == 1
				e := epoch
				var stopInv uint64
				returned := false
				r.call("stop", func() {
					stopInv = rt.Tick()
					if svc.Stop(clear) {
						running = false
						if clear {
							stopsCleared[e] = true
						}
					}
					returned = true
				})
				w.Run(11 * time.Second) // DisconnectTimeout bounds a Stop with pending futures
				if clear && returned && stopsCleared[e] {
					// Stop(true) - online or offline - cancels every future that
					// existed when it was called
					res.Count("midway_clearing_stops", 1)
					for _, c := range cmds {
						if c.fut == nil || c.fut.resolved || c.fut.created >= stopInv {
							continue
						}
						// The command queue belongs to the service and survives
						// Stop/Start (queueing before the first Start is the usual
						// usage): only futures of commands that had been handed to
						// a client - their packet reached the connection - are
						// "pending futures" that Stop(true) must cancel.
						if !dispatchedBefore(w, cmds, c, stopInv) {
							res.Count("queued_commands_surviving_stop", 1)
							continue
						}
						res.Violate("C17", "C17.stop-clears-futures", c.fut.kind+"-midway", fmt.Sprintf("the %s future #%d, whose command had reached the connection before Stop(true) was called, is still unresolved after Stop returned", c.fut.kind, c.fut.tag))
					}
				}
			case "burst":
				// it.A publishes issued back to back by one caller; with a full queue
				// each call blocks (for at most QueueTimeout) before the next is made
				var bs []*svcCmd
				for i := 0; i < it.A; i++ {
					q := it.B
					if q == 2 {
						q = i % 2
					}
					bs = append(bs, &svcCmd{kind: "pub", tag: it.D + i, qos: q, epoch: epoch})
				}
				if r.call("publish-burst", func() {
					for _, cc := range bs {
						cc.issued = rt.Tick()
						f := svc.Publish("p/t", []byte(fmt.Sprintf("#%d#", cc.tag)), packet.QOS(cc.qos), false)
						cc.fut = &futRec{kind: fmt.Sprintf("pub%d", cc.qos), tag: cc.tag, fut: f}
						r.watch(cc.fut)
					}
				}) {
					cmds = append(cmds, bs...)
					res.Count("bursts", 1)
				}
				w.Settle()
			case "sub", "unsub", "pub":
				if p.Knob("qs", 0) > 0 && r.actors[0].busy {
					// the only caller is still blocked on the full queue
					res.Count("commands_skipped_caller_blocked", 1)
					continue
				}
				c := &svcCmd{kind: it.K, tag: it.D, qos: it.A, epoch: epoch}
				switch it.K {
				case "sub":
					c.topic = svcTopics[it.B%len(svcTopics)]
					cc := c
					r.call("subscribe", func() {
						cc.issued = rt.Tick()
						t0 := time.Now()
						f := svc.Subscribe(cc.topic, packet.QOS(cc.qos))
						cc.neverQueued = time.Since(t0) >= svc.QueueTimeout
						cc.fut = &futRec{kind: "sub", tag: cc.tag, fut: f}
						r.watch(cc.fut)
					})
				case "unsub":
					c.topic = svcTopics[it.B%len(svcTopics)]
					cc := c
					r.call("unsubscribe", func() {
						cc.issued = rt.Tick()
						t0 := time.Now()
						f := svc.Unsubscribe(cc.topic)
						cc.neverQueued = time.Since(t0) >= svc.QueueTimeout
						cc.fut = &futRec{kind: "unsub", tag: cc.tag, fut: f}
						r.watch(cc.fut)
					})
				default:
					cc := c
					r.call("publish", func() {
						cc.issued = rt.Tick()
						f := svc.Publish("p/t", []byte(fmt.Sprintf("#%d#", cc.tag)), packet.QOS(cc.qos), false)
						cc.fut = &futRec{kind: fmt.Sprintf("pub%d", cc.qos), tag: cc.tag, fut: f}
						r.watch(cc.fut)
					})
				}
				cmds = append(cmds, c)
				w.Settle()
			case "run":
				w.Run(time.Duration(it.A) * time.Millisecond)
			case "drop":
				if bc := w.Last(); bc != nil && !bc.BEOF {
					bc.Drop()
				}
				w.Settle()
			}
		}
		// healthy period: all remaining dials succeed, time passes
		for d := w.dials + 1; d < w.dials+200; d++ {
			delete(w.DialPlan, d)
		}
		if p.Knob("qs", 0) > 0 {
			// a caller blocked on the full queue of a stopped service comes back
			// after QueueTimeout per command
			for i := 0; i < 40 && r.actors[0].busy; i++ {
				w.Run(11 * time.Second)
			}
		}
		if !running {
			r.call("start", func() {
				if svc.Start(cfg) {
					running = true
					epoch++
				}
			})
		}
		w.Run(40 * time.Second)
		healthyConn := w.Last()
		judgeC17(w, r, cmds, cfg.CleanSession, healthyConn, stopsCleared, epoch, res)
		// final stop with cleared futures, then census
		stopped := false
		r.call("final-stop", func() { svc.Stop(true); stopped = true })
		w.Run(12 * time.Second)
		time.Sleep(time.Hour)
		w.Settle()
		if !stopped {
			res.Violate("C17", "C17.stop-blocks", "final", fmt.Sprintf("Stop(true) has not returned one virtual hour later; goroutines: %v", core.Leaked()))
		}
		for i, a := range r.actors {
			if a.busy && a.what != "final-stop" {
				res.Violate("C17", "C17.call-blocks", a.what, fmt.Sprintf("actor %d is still blocked in %s: %v", i, a.what, core.Leaked()))
			}
		}
		if stopped {
			for _, f := range r.futs {
				if !f.resolved {
					res.Violate("C17", "C17.stop-clears-futures", f.kind, fmt.Sprintf("the %s future #%d is still unresolved after Stop(true) returned", f.kind, f.tag))
				}
			}
		}
		for _, a := range r.actors {
			if !a.busy {
				close(a.ch)
			}
		}
		for _, c := range w.Conns {
			if c != nil {
				c.Link.Cut()
			}
		}
		w.Settle()
		if stopped {
			if l := core.Leaked(); len(l) > 0 {
				res.Violate("C17", "C17.leak", l[0], fmt.Sprintf("%d goroutines alive after the service was stopped: %v", len(l), l))
			}
		}
		res.Count("dials", int64(w.dials))
		res.Count("online_callbacks", int64(online))
		res.Count("commands", int64(len(cmds)))
		res.Yields = rt.Yields()
		res.SimNanos = int64(core.SimNow())
	})
	if ptxt != "" && !strings.Contains(ptxt, "deadlock") {
		res.Violate("C17", "C17.panic", "bubble", ptxt)
	}
	if w != nil {
		res.Hash, res.Events, res.Steps = w.Log.Hash(), w.Log.N, w.Steps
		res.Sched = w.Log.Hash()
	}
	if p.Seed%29 == 0 {
		res.Sample = p.Brief(16)
	}
	return res
}

func judgeC17(w *World, r *cliRun, cmds []*svcCmd, clean bool, healthy *Conn, stopsCleared map[int]bool, lastEpoch int, res *core.Result) {
	// index commands by what identifies them on the wire
	byTag := map[int]*svcCmd{}
	for _, c := range cmds {
		byTag[c.tag] = c
	}
	// wire view per connection
	type wirePkt struct {
		seq uint64
		p   packet.Generic
		err error
	}
	perConn := map[int][]wirePkt{}
	connacked := map[int]uint64{}
	for _, e := range w.Hist {
		switch e.K {
		case EvSend:
			perConn[e.C] = append(perConn[e.C], wirePkt{e.Seq, e.P, nil})
		case EvRecv:
			if q, ok := e.P.(*packet.Connack); ok && q.ReturnCode == 0 && connacked[e.C] == 0 {
				connacked[e.C] = e.Seq
			}
		}
	}
	// (S1)+(S2): walk the connections in order; maintain the desired set from the
	// command packets seen on the wire; the first packet after an accepted
	// CONNECT must be the resubscription of exactly that set (if non-empty).
	desired := map[string]int{}
	// commands whose dispatch is not visible on the wire but may have updated the
	// service's set (their future was cancelled): kept as ambiguous
	lastWireIdx := -1
	order := func(c *svcCmd) int {
		for i, x := range cmds {
			if x == c {
				return i
			}
		}
		return -1
	}
	resubChecked, reconnects := 0, 0
	conns := make([]int, 0, len(perConn))
	for c := range perConn {
		conns = append(conns, c)
	}
	sort.Ints(conns)
	seenOnWire := map[int]bool{}
	for _, cn := range conns {
		pk := perConn[cn]
		if connacked[cn] == 0 {
			continue
		}
		reconnects++
		first := true
		for _, x := range pk {
			if x.seq < connacked[cn] {
				continue
			}
			switch q := x.p.(type) {
			case *packet.Subscribe:
				// is it a command (single topic issued by the harness) or the resubscription?
				var cmd *svcCmd
				if len(q.Subscriptions) == 1 {
					for _, c := range cmds {
						if c.kind == "sub" && !seenOnWire[c.tag] && c.topic == q.Subscriptions[0].Topic && c.qos == int(q.Subscriptions[0].QOS) && order(c) > lastWireIdx && c.issued != 0 && c.issued < x.seq {
							if c.fut != nil && c.fut.resolved && c.fut.err != nil && c.fut.at < x.seq {
								// dequeued while the client was dead: its future was
								// cancelled before this packet went out, so the packet
								// is not that command (the command has updated the
								// set to restore, though - ambiguousExplains)
								continue
							}
							cmd = c
							break
						}
					}
				}
				isResub := first && len(desired) > 0 && (cmd == nil || len(q.Subscriptions) > 1 || resubLooksLike(q, desired))
				if first && !isResub {
					// commands that were dequeued while the client was dead (future
					// cancelled) have updated the set to restore without ever being
					// seen on the wire: the first packet may be the resubscription of
					// exactly that - even if a later command happens to look the same
					got := map[string]int{}
					for _, sb := range q.Subscriptions {
						got[sb.Topic] = int(sb.QOS)
					}
					if cancelledExplain(cmds, desired, got, seenOnWire, x.seq) {
						isResub = true
					}
				}
				if isResub {
					resubChecked++
					got := map[string]int{}
					var topics []string
					for _, s := range q.Subscriptions {
						got[s.Topic] = int(s.QOS)
						topics = append(topics, s.Topic)
					}
					if !sort.StringsAreSorted(topics) {
						res.Violate("C17", "C17.resubscribe", "unsorted", fmt.Sprintf("connection %d: resubscription %s is not sorted", cn, pktBrief(q)))
					}
					if fmt.Sprint(got) != fmt.Sprint(desired) && !ambiguousExplains(cmds, desired, got, seenOnWire, x.seq) {
						res.Violate("C17", "C17.resubscribe", "wrong-set", fmt.Sprintf("connection %d: after reconnecting the service resubscribed %v, the subscribe/unsubscribe calls dispatched so far amount to %v", cn, got, desired))
					}
				} else if cmd != nil {
					if first && len(desired) > 0 {
						res.Violate("C17", "C17.resubscribe", "missing", fmt.Sprintf("connection %d: the first packet after CONNACK is the command %s, the desired set %v was not resubscribed first", cn, pktBrief(q), desired))
					}
					seenOnWire[cmd.tag] = true
					if order(cmd) < lastWireIdx {
						res.Violate("C17", "C17.command-order", "reordered", fmt.Sprintf("command #%d reached the wire after a command issued later", cmd.tag))
					}
					lastWireIdx = order(cmd)
					desired[cmd.topic] = cmd.qos
				}
				first = false
			case *packet.Unsubscribe:
				for _, c := range cmds {
					if c.kind == "unsub" && !seenOnWire[c.tag] && len(q.Topics) == 1 && c.topic == q.Topics[0] && order(c) > lastWireIdx && c.issued != 0 && c.issued < x.seq {
						if first && len(desired) > 0 {
							res.Violate("C17", "C17.resubscribe", "missing", fmt.Sprintf("connection %d: the first packet after CONNACK is the command %s, the desired set %v was not resubscribed first", cn, pktBrief(q), desired))
						}
						seenOnWire[c.tag] = true
						lastWireIdx = order(c)
						delete(desired, c.topic)
						break
					}
				}
				first = false
			case *packet.Publish:
				if q.Dup {
					break // retransmission by the resumed session, not a command
				}
				var tg int
				fmt.Sscanf(string(q.Message.Payload), "#%d#", &tg)
				if c := byTag[tg]; c != nil && !seenOnWire[tg] {
					if first && len(desired) > 0 {
						res.Violate("C17", "C17.resubscribe", "missing", fmt.Sprintf("connection %d: the first packet after CONNACK is the command %s, the desired set %v was not resubscribed first", cn, pktBrief(q), desired))
					}
					seenOnWire[tg] = true
					if order(c) < lastWireIdx {
						res.Violate("C17", "C17.command-order", "reordered", fmt.Sprintf("publish command #%d reached the wire after a command issued later", tg))
					}
					lastWireIdx = order(c)
				}
				first = false
			}
		}
	}
	// (S2b) after the healthy period every command issued while the service was
	// (or was later) running has reached the wire or has a resolved future
	for _, c := range cmds {
		if c.fut == nil {
			continue
		}
		if !seenOnWire[c.tag] && !c.fut.resolved {
			res.Violate("C17", "C17.command-carried-out", c.kind, fmt.Sprintf("%s command #%d never reached the wire although the service has been online for 40 virtual seconds, and its future is unresolved", c.kind, c.tag))
		}
	}
	// (S3) publish futures survive reconnects (persistent session only)
	sentOK := map[int]bool{}
	for _, e := range w.Hist {
		if e.K == EvSent && e.Err == nil {
			if q, ok := e.P.(*packet.Publish); ok && !q.Dup {
				var tg int
				fmt.Sscanf(string(q.Message.Payload), "#%d#", &tg)
				sentOK[tg] = true
			}
		}
	}
	if !clean && healthy != nil && !healthy.BEOF {
		for _, c := range cmds {
			if c.kind != "pub" || c.qos == 0 || c.fut == nil || !seenOnWire[c.tag] {
				continue
			}
			cleared := false
			for e := c.epoch; e <= lastEpoch; e++ {
				if stopsCleared[e] {
					cleared = true
				}
			}
			if cleared {
				continue
			}
			if !c.fut.resolved {
				res.Violate("C17", "C17.future-survives", fmt.Sprintf("pub%d", c.qos), fmt.Sprintf("the future of publish #%d (QoS %d) is unresolved although the session was resumed on a healthy connection for 40 virtual seconds", c.tag, c.qos))
			} else if c.fut.err != nil && sentOK[c.tag] {
				res.Violate("C17", "C17.future-survives", fmt.Sprintf("pub%d-cancelled", c.qos), fmt.Sprintf("the future of publish #%d (QoS %d) was cancelled (%v) although no Stop(true) intervened: the packet is kept by the persistent session, retransmitted and acknowledged, so the future must survive the reconnect and complete", c.tag, c.qos, c.fut.err))
			}
		}
	}
	res.Count("resubscriptions_checked", int64(resubChecked))
	res.Count("successful_connects", int64(reconnects))
	res.Nontrivial = reconnects >= 1 && len(cmds) >= 1
	res.State = fmt.Sprintf("%d/%d/%d", reconnects, resubChecked, len(cmds))
}

// resubLooksLike: a single-filter SUBSCRIBE that equals the whole desired set
// is the resubscription, not a repeated command.
func resubLooksLike(q *packet.Subscribe, desired map[string]int) bool {
	if len(q.Subscriptions) != len(desired) {
		return false
	}
	for _, s := range q.Subscriptions {
		if d, ok := desired[s.Topic]; !ok || d != int(s.QOS) {
			return false
		}
	}
	return true
}

// cancelledExplain: got equals the wire-derived set plus a non-empty subset of
// the (un)subscribe commands whose futures were cancelled before `before`.
func cancelledExplain(cmds []*svcCmd, desired, got map[string]int, seenOnWire map[int]bool, before uint64) bool {
	var amb []*svcCmd
	for _, c := range cmds {
		if (c.kind == "sub" || c.kind == "unsub") && !c.neverQueued && !seenOnWire[c.tag] && c.fut != nil && c.fut.resolved && c.fut.err != nil && c.fut.at < before {
			amb = append(amb, c)
		}
	}
	if len(amb) == 0 || len(amb) > 10 {
		return false
	}
	for mask := 1; mask < 1<<uint(len(amb)); mask++ {
		m := map[string]int{}
		for k, v := range desired {
			m[k] = v
		}
		for i, c := range amb {
			if mask&(1<<uint(i)) == 0 {
				continue
			}
			if c.kind == "sub" {
				m[c.topic] = c.qos
			} else {
				delete(m, c.topic)
			}
		}
		if fmt.Sprint(m) == fmt.Sprint(got) {
			return true
		}
	}
	return false
}

// ambiguousExplains: commands that were dequeued while the client was already
// dead update the service's set without reaching the wire (their futures are
// cancelled). The resubscribed set must be explainable by applying some subset
// of those commands, in issue order, on top of the wire-derived set.
func ambiguousExplains(cmds []*svcCmd, desired, got map[string]int, seenOnWire map[int]bool, before uint64) bool {
	var amb []*svcCmd
	for _, c := range cmds {
		if (c.kind == "sub" || c.kind == "unsub") && !c.neverQueued && !seenOnWire[c.tag] && c.issued != 0 && c.issued < before {
			amb = append(amb, c)
		}
	}
	if len(amb) > 10 {
		return true
	}
	for mask := 0; mask < 1<<uint(len(amb)); mask++ {
		m := map[string]int{}
		for k, v := range desired {
			m[k] = v
		}
		for i, c := range amb {
			if mask&(1<<uint(i)) == 0 {
				continue
			}
			if c.kind == "sub" {
				m[c.topic] = c.qos
			} else {
				delete(m, c.topic)
			}
		}
		if fmt.Sprint(m) == fmt.Sprint(got) {
			return true
		}
	}
	return false
}
