package cli

import (
	"fmt"
	"strings"
	"testing"
	"time"

	"github.com/256dpi/gomqtt/client"
	"github.com/256dpi/gomqtt/packet"
	"github.com/256dpi/gomqtt/session"

	"verif/sim/core"
	"verif/sim/rt"
)

// C09: the client keeps QoS>=1 publishes until acknowledged; futures resolve
// truthfully and always; Close/Disconnect return; accessors never panic.

func init() {
	core.Register(&core.Check{ID: "C09", Expand: expandC09, Run: runC09})
}

func expandC09(_ *testing.T, seed uint64, tier string) []*core.Plan {
	r := core.NewRand(core.Derive(seed, "plan"))
	p := &core.Plan{Check: "C09", Seed: seed}
	p.SetKnob("chunk", r.Pick(0, 0, -1, 1))
	p.SetKnob("actors", r.Pick(1, 1, 2, 4))
	p.SetKnob("loose", r.Pick(0, 0, 1))
	p.SetKnob("park", r.Pick(0, 0, 0, 3, 6))
	p.Yield = r.Pick(0, 0, 0, 8)
	// faults: at most a couple per run, most runs none
	if r.Chance(1, 4) {
		p.SetKnob("sessfail", r.Range(1, 12))
	}
	if seed%13 == 5 {
		// Disconnect with a timeout while acknowledgements trickle in and time
		// passes: the wait for the remaining futures must still be bounded
		p.SetKnob("actors", 2)
		p.SetKnob("park", r.Pick(2, 3))
		p.SetKnob("loose", 1) // goroutines may stay parked while the clock advances
		delete(p.Knobs, "sessfail")
		p.Items = append(p.Items, core.Item{K: "dialcfg", B: 4}, core.Item{K: "connect", A: 0, B: 0})
		n := r.Range(2, 4)
		for i := 1; i <= n; i++ {
			p.Items = append(p.Items, core.Item{K: "pub", A: r.Pick(1, 2), D: i})
		}
		p.Items = append(p.Items, core.Item{K: "disc", A: r.Pick(50, 100, 1000)})
		for i := 0; i < n-1; i++ {
			p.Items = append(p.Items, core.Item{K: "back1"})
			if r.Chance(1, 2) {
				p.Items = append(p.Items, core.Item{K: "adv", A: r.Pick(20, 60, 200, 1500)})
			}
		}
		p.Items = append(p.Items, core.Item{K: "adv", A: 2000}, core.Item{K: "none"})
		return []*core.Plan{p}
	}
	tag := 0
	nclients := r.Range(1, 3)
	for c := 0; c < nclients; c++ {
		// how the next dial behaves
		d := core.Item{K: "dialcfg"}
		switch r.Weighted([]int{12, 1, 1, 1, 1, 1}) {
		case 1:
			d.A = r.Range(1, 5) // CONNACK refusal
		case 2:
			d.A = -1 // no CONNACK
		case 3:
			d.A = -2 // wrong first packet
		case 4:
			d.B |= 1 // dial refused
		case 5:
			d.B |= 2 // CONNECT unsendable
		}
		if r.Chance(1, 2) {
			d.B |= 4 // deferred acknowledgements
		} else if r.Chance(1, 8) {
			d.B |= 8 // acknowledgements never come
		}
		if r.Chance(1, 8) {
			d.B |= 16 // SUBACK carries failure codes
		}
		if r.Chance(1, 3) {
			d.B |= 32 // session present
		}
		if r.Chance(1, 5) {
			d.C = r.Range(1, 8) // broker drops after reading this many packets
		}
		if r.Chance(1, 5) {
			d.D = r.Range(1, 8) // client's k-th send fails
			if r.Chance(1, 2) {
				d.B |= 64 // ... after the packet went out
			}
		}
		if r.Chance(1, 6) {
			d.L = []int{r.Range(1, 8)} // client's k-th receive fails
		}
		p.Items = append(p.Items, d)
		clean := r.Chance(1, 3)
		p.Items = append(p.Items, core.Item{K: "connect", A: b2i(clean), B: r.Pick(0, 30, 30, 5), C: r.Pick(0, 0, 0, 1, 2)})
		n := r.Range(1, 10)
		for i := 0; i < n; i++ {
			switch r.Weighted([]int{10, 3, 2, 4, 2, 1, 1, 1, 2, 1, 1}) {
			case 0:
				tag++
				p.Items = append(p.Items, core.Item{K: "pub", A: r.Intn(3), D: tag})
			case 1:
				tag++
				p.Items = append(p.Items, core.Item{K: "sub", A: r.Intn(3), D: tag})
			case 2:
				tag++
				p.Items = append(p.Items, core.Item{K: "unsub", D: tag})
			case 3:
				p.Items = append(p.Items, core.Item{K: r.PickS("backs", "backs", "backrev", "back1")})
			case 4:
				p.Items = append(p.Items, core.Item{K: "access"})
			case 5:
				p.Items = append(p.Items, core.Item{K: "bdrop"})
			case 6:
				p.Items = append(p.Items, core.Item{K: "bspur", A: r.Intn(5), B: r.Pick(1, 2, 999)})
			case 7:
				p.Items = append(p.Items, core.Item{K: "bdup"})
			case 8:
				p.Items = append(p.Items, core.Item{K: "settle"})
			case 9:
				p.Items = append(p.Items, core.Item{K: "adv", A: r.Pick(20, 3000, 6000, 31000, 46000)})
			case 10:
				p.Items = append(p.Items, core.Item{K: "disc", A: r.Pick(0, 0, 100, 5000)})
			}
		}
		p.Items = append(p.Items, core.Item{K: "access"})
		p.Items = append(p.Items, core.Item{K: r.PickS("close", "close", "disc", "bdrop", "none")})
	}
	// a third of the failing sends are quiet: the write fails and the link stays
	// up and silent (drawn from a stream of its own: the other plans stay as they were)
	rq := core.NewRand(core.Derive(seed, "quiet"))
	for i, it := range p.Items {
		if it.K == "dialcfg" && it.D > 0 && rq.Chance(1, 3) {
			p.Items[i].B = (it.B &^ 64) | 128
		}
	}
	return []*core.Plan{p}
}

func b2i(b bool) int {
	if b {
		return 1
	}
	return 0
}

type futRec struct {
	kind     string // connect, pub0, pub1, pub2, sub, unsub
	tag      int
	clientN  int
	dialN    int
	fut      client.GenericFuture
	created  uint64
	resolved bool
	err      error
	at       uint64
}

type actor struct {
	ch   chan func()
	busy bool
	what string
}

type cliRun struct {
	w       *World
	res     *core.Result
	sess    *ProbeSession
	clients []*client.Client
	cur     *client.Client
	curN    int
	futs    []*futRec
	actors  []*actor
	cbErrs  map[int][]error
}

func (r *cliRun) watch(f *futRec) {
	r.futs = append(r.futs, f)
	f.created = rt.Tick()
	go func() {
		err := f.fut.Wait(0)
		f.resolved, f.err, f.at = true, err, rt.Tick()
		r.w.ev(&Ev{K: EvFuture, S: fmt.Sprintf("%s#%d -> %v", f.kind, f.tag, err), C: f.clientN})
	}()
}

// call dispatches an API call to an idle actor; it reports false if all are busy.
func (r *cliRun) call(name string, fn func()) bool {
	for _, a := range r.actors {
		if !a.busy {
			a.busy, a.what = true, name
			r.w.ev(&Ev{K: EvAPI, S: name})
			a.ch <- func() {
				fn()
				r.w.ev(&Ev{K: EvAPIRet, S: name})
			}
			return true
		}
	}
	return false
}

func (r *cliRun) accessors() {
	for _, f := range r.futs {
		func() {
			defer func() {
				if x := recover(); x != nil {
					state := "unresolved"
					if f.resolved {
						state = fmt.Sprintf("resolved(%v)", f.err)
					}
					r.res.Violate("C09", "C09.accessor-panic", f.kind, fmt.Sprintf("accessor of the %s future panicked in state %s: %v", f.kind, state, x))
				}
			}()
			switch q := f.fut.(type) {
			case client.ConnectFuture:
				_ = q.SessionPresent()
				_ = q.ReturnCode()
			case client.SubscribeFuture:
				_ = q.ReturnCodes()
			}
		}()
	}
	r.res.Count("accessor_sweeps", 1)
}

func runC09(t *testing.T, p *core.Plan) *core.Result {
	res := &core.Result{Check: "C09", Seed: p.Seed}
	var w *World
	ptxt := core.Bubble(t, p.Seed, p.Yield, func() {
		w = NewWorld(p.Seed, res)
		w.Chunk = p.Knob("chunk", 0)
		w.EnablePark(p.Seed, p.Knob("park", 0))
		r := &cliRun{w: w, res: res, cbErrs: map[int][]error{}}
		r.sess = &ProbeSession{W: w, Inner: session.NewMemorySession(), FailN: p.Knob("sessfail", 0)}
		for i := 0; i < p.Knob("actors", 1); i++ {
			a := &actor{ch: make(chan func(), 1)}
			r.actors = append(r.actors, a)
			go func() {
				for f := range a.ch {
					f()
					a.busy = false
				}
			}()
		}
		loose := p.Knob("loose", 0) == 1
		nextDial := DialBehaviour{}
		for _, it := range p.Items {
			switch it.K {
			case "dialcfg":
				nextDial = DialBehaviour{Connack: it.A, Refuse: it.B&1 != 0, ConnectUnsendable: it.B&2 != 0,
					SubFail: it.B&16 != 0, SessionPresent: it.B&32 != 0, DropAfterRecv: it.C, FailSendN: it.D, FailSendPost: it.B&64 != 0, FailSendQuiet: it.B&128 != 0}
				if it.B&4 != 0 {
					nextDial.AckMode = 1
				}
				if it.B&8 != 0 {
					nextDial.AckMode = 2
				}
				if len(it.L) > 0 {
					nextDial.FailRecvN = it.L[0]
				}
			case "connect":
				// a session object serves one client at a time: the previous client
				// is closed (and has returned from Close) before the next one connects
				if prev := r.cur; prev != nil {
					w.Settle()
					if r.call("close-before-reuse", func() { _ = prev.Close() }) {
						w.Settle()
					}
					busy := false
					for _, a := range r.actors {
						busy = busy || a.busy
					}
					if busy {
						break // a call is stuck; the verdict at the end will say so
					}
				}
				w.DialPlan[w.dials+1] = nextDial
				c := client.New()
				c.Session = r.sess
				n := len(r.clients) + 1
				c.Callback = func(msg *packet.Message, err error) error {
					if err != nil {
						r.cbErrs[n] = append(r.cbErrs[n], err)
						w.ev(&Ev{K: EvCallback, C: n, Err: err})
					}
					return nil
				}
				r.clients = append(r.clients, c)
				r.cur, r.curN = c, n
				cfg := client.NewConfigWithClientID("sim://broker", "cl")
				cfg.Dialer = w
				cfg.CleanSession = it.A == 1
				cfg.KeepAlive = fmt.Sprintf("%ds", it.B)
				r.call("connect", func() {
					f, err := c.Connect(cfg)
					if err != nil {
						w.ev(&Ev{K: EvNote, S: "connect error", Err: err})
						res.Count("connect_errors", 1)
						return
					}
					r.watch(&futRec{kind: "connect", clientN: n, dialN: w.dials, fut: f})
					if it.C > 0 {
						// the application publishes the moment the connect future
						// completes (what client.Service does): the client is still
						// busy retransmitting what the session holds
						// (in a goroutine of its own: the actor stays free for other calls)
						go func() {
							if f.Wait(30*time.Second) == nil {
								tag, q := 1000+n, it.C
								pf, err := c.Publish("t/p", []byte(fmt.Sprintf("#%d#", tag)), packet.QOS(q), false)
								if err == nil {
									r.watch(&futRec{kind: fmt.Sprintf("pub%d", q), tag: tag, clientN: n, fut: pf})
								}
								res.Count("publishes_on_connect", 1)
							}
						}()
					}
				})
			case "pub":
				c, n, tag, q := r.cur, r.curN, it.D, it.A
				if c == nil {
					break
				}
				r.call("publish", func() {
					f, err := c.Publish("t/p", []byte(fmt.Sprintf("#%d#", tag)), packet.QOS(q), false)
					if err == nil {
						r.watch(&futRec{kind: fmt.Sprintf("pub%d", q), tag: tag, clientN: n, fut: f})
					}
				})
			case "sub":
				c, n, tag, q := r.cur, r.curN, it.D, it.A
				if c == nil {
					break
				}
				r.call("subscribe", func() {
					f, err := c.Subscribe(fmt.Sprintf("s/%d", tag), packet.QOS(q))
					if err == nil {
						r.watch(&futRec{kind: "sub", tag: tag, clientN: n, fut: f})
					}
				})
			case "unsub":
				c, n, tag := r.cur, r.curN, it.D
				if c == nil {
					break
				}
				r.call("unsubscribe", func() {
					f, err := c.Unsubscribe(fmt.Sprintf("s/%d", tag))
					if err == nil {
						r.watch(&futRec{kind: "unsub", tag: tag, clientN: n, fut: f})
					}
				})
			case "disc":
				c, ms := r.cur, it.A
				if c == nil {
					break
				}
				r.call("disconnect", func() {
					if ms > 0 {
						_ = c.Disconnect(time.Duration(ms) * time.Millisecond)
					} else {
						_ = c.Disconnect()
					}
				})
			case "close":
				c := r.cur
				if c == nil {
					break
				}
				r.call("close", func() { _ = c.Close() })
			case "access":
				r.accessors()
			case "backs", "backrev", "back1":
				if bc := w.Last(); bc != nil {
					pend := bc.Pending
					bc.Pending = nil
					switch it.K {
					case "backrev":
						for i := len(pend) - 1; i >= 0; i-- {
							bc.BSend(pend[i])
						}
					case "back1":
						if len(pend) > 0 {
							bc.BSend(pend[0])
							bc.Pending = pend[1:]
						}
					default:
						for _, x := range pend {
							bc.BSend(x)
						}
					}
				}
			case "bdrop":
				if bc := w.Last(); bc != nil && !bc.BEOF {
					bc.Drop()
				}
			case "bspur":
				if bc := w.Last(); bc != nil && bc.Connect != nil {
					id := packet.ID(it.B)
					var x packet.Generic
					switch it.A {
					case 0:
						a := packet.NewPuback()
						a.ID = id
						x = a
					case 1:
						a := packet.NewPubcomp()
						a.ID = id
						x = a
					case 2:
						a := packet.NewPubrec()
						a.ID = id
						x = a
					case 3:
						a := packet.NewSuback()
						a.ID, a.ReturnCodes = id, []packet.QOS{0}
						x = a
					default:
						a := packet.NewUnsuback()
						a.ID = id
						x = a
					}
					bc.BSend(x)
					res.Count("spurious_acks", 1)
				}
			case "bdup":
				if bc := w.Last(); bc != nil && len(bc.BSent) > 1 {
					bc.BSend(bc.BSent[len(bc.BSent)-1].P)
					res.Count("duplicate_acks", 1)
				}
			case "adv":
				w.Advance(time.Duration(it.A) * time.Millisecond)
			case "settle":
				w.Settle()
			}
			if !loose || it.K == "connect" {
				w.Settle()
			} else {
				wait()
				w.progress()
				wait()
			}
		}
		w.Settle()
		w.StopPark()
		w.Settle()
		// liveness while connected: an acknowledgement that reached the client's
		// socket resolves its future
		r.judgeLiveAcks()
		// a connection that has ended leaves no unresolved future behind
		r.judgeEndedConnections()
		// the end: everything is closed
		for _, c := range r.clients {
			c := c
			if !r.call("final-close", func() { _ = c.Close() }) {
				break
			}
			w.Settle()
		}
		w.Settle()
		time.Sleep(time.Hour)
		w.Settle()
		r.judge(p)
		for _, a := range r.actors {
			if !a.busy {
				close(a.ch)
			}
		}
		res.Yields = rt.Yields()
		res.SimNanos = int64(core.SimNow())
		// unblock what is left so that the bubble can end
		for _, c := range w.Conns {
			if c != nil {
				c.Link.Cut()
			}
		}
		wait()
	})
	if ptxt != "" && !strings.Contains(ptxt, "deadlock") {
		res.Violate("C09", "C09.panic", "bubble", ptxt)
	}
	if w != nil {
		res.Hash, res.Events, res.Steps = w.Log.Hash(), w.Log.N, w.Steps
		res.Sched = w.Log.Hash()
	}
	if p.Seed%43 == 0 {
		res.Sample = p.Brief(16)
	}
	return res
}

// lastConnOfClient: the callback event carries the client number; connections
// and clients are created in lock step, so the client's connection is the
// latest dial at that moment.
func lastConnOfClient(connOrder []int, clientN int) map[int]bool {
	out := map[int]bool{}
	if len(connOrder) > 0 {
		out[connOrder[len(connOrder)-1]] = true
	}
	return out
}

// ackFor finds the acknowledgement the client received for a request.
func (r *cliRun) requestOf(f *futRec) (send *Ev, sent *Ev) {
	for _, e := range r.w.Hist {
		if e.K != EvSend && e.K != EvSent {
			continue
		}
		match := false
		switch q := e.P.(type) {
		case *packet.Publish:
			match = strings.HasPrefix(f.kind, "pub") && !q.Dup && string(q.Message.Payload) == fmt.Sprintf("#%d#", f.tag)
		case *packet.Subscribe:
			match = f.kind == "sub" && len(q.Subscriptions) == 1 && q.Subscriptions[0].Topic == fmt.Sprintf("s/%d", f.tag)
		case *packet.Unsubscribe:
			match = f.kind == "unsub" && len(q.Topics) == 1 && q.Topics[0] == fmt.Sprintf("s/%d", f.tag)
		case *packet.Connect:
			match = f.kind == "connect" && e.C == f.dialN
		}
		if !match {
			continue
		}
		if e.K == EvSend && send == nil {
			send = e
		} else if e.K == EvSent && send != nil && sent == nil && e.N == send.N && e.C == send.C {
			sent = e
		}
	}
	return
}

// ackMatches: "the broker's acknowledgement for that packet id". Packet ids are
// one space shared by PUBLISH, SUBSCRIBE and UNSUBSCRIBE, and the client keys
// its futures by id alone, so any completing acknowledgement that carries the id
// counts (a broker answering with the wrong type is outside the statement).
func ackMatches(f *futRec, req packet.Generic, p packet.Generic) bool {
	id, _ := packet.GetID(req)
	if f.kind == "connect" {
		q, ok := p.(*packet.Connack)
		return ok && q.ReturnCode == 0
	}
	switch q := p.(type) {
	case *packet.Puback:
		return q.ID == id
	case *packet.Pubcomp:
		return q.ID == id
	case *packet.Suback:
		return q.ID == id
	case *packet.Unsuback:
		return q.ID == id
	}
	return false
}

// finalAck: the acknowledgement a well-behaved broker sends last for f.
func finalAck(f *futRec, req packet.Generic, p packet.Generic) bool {
	id, _ := packet.GetID(req)
	switch q := p.(type) {
	case *packet.Puback:
		return f.kind == "pub1" && q.ID == id
	case *packet.Pubcomp:
		return f.kind == "pub2" && q.ID == id
	case *packet.Suback:
		return f.kind == "sub" && q.ID == id
	case *packet.Unsuback:
		return f.kind == "unsub" && q.ID == id
	}
	return false
}

// judgeEndedConnections: once a client's connection has ended (the client told
// the application through the callback, or closed its conn) and the system is
// quiescent, every future that client handed out must be resolved - without
// anybody having to call Close.
func (r *cliRun) judgeEndedConnections() {
	for n := range r.clients {
		cn := n + 1
		ended := len(r.cbErrs[cn]) > 0
		if !ended {
			continue
		}
		for _, a := range r.actors {
			if a.busy {
				return // a call is still in flight: its future may legitimately be young
			}
		}
		for _, f := range r.futs {
			if f.clientN == cn && !f.resolved {
				r.res.Violate("C09", "C09.future-unresolved-after-connection-end", f.kind,
					fmt.Sprintf("client %d reported the end of its connection (%v) and the system is quiescent, but its %s future #%d is still unresolved; only a later Close would cancel it", cn, r.cbErrs[cn][0], f.kind, f.tag))
			}
		}
	}
}

func (r *cliRun) judgeLiveAcks() {
	for _, f := range r.futs {
		if f.resolved || f.kind == "pub0" {
			continue
		}
		send, _ := r.requestOf(f)
		if send == nil {
			continue
		}
		c := r.w.Conns[send.C-1]
		if c == nil || c.BEOF || c.closed || c.Link.B2A.Broken() || c.Link.B2A.InFlight() > 0 {
			continue
		}
		// did the scripted broker send the final acknowledgement?
		for _, e := range c.BSent {
			if e.Seq > send.Seq && e.S != "lost" && finalAck(f, send.P, e.P) {
				r.res.Violate("C09", "C09.ack-delivered-future-unresolved", f.kind,
					fmt.Sprintf("the broker's %s for the %s request #%d was delivered to the client's socket (event %d), the connection is still open, but the future never resolves and the application is not told", pktBrief(e.P), f.kind, f.tag, e.Seq))
				break
			}
		}
	}
}

func (r *cliRun) judge(p *core.Plan) {
	w, res := r.w, r.res
	sessFault := false
	for _, e := range w.Hist {
		if e.K == EvSess && e.Err != nil {
			sessFault = true
		}
	}
	// (H3) Close / Disconnect / Connect return
	for i, a := range r.actors {
		if a.busy {
			stacks := core.Leaked()
			res.Violate("C09", "C09.call-blocks", a.what, fmt.Sprintf("actor %d is still blocked in %s one virtual hour after everything ended; goroutines: %v", i, a.what, stacks))
		}
	}
	// (H2) every future resolved
	unresolved := 0
	for _, f := range r.futs {
		if !f.resolved {
			unresolved++
			res.Violate("C09", "C09.future-unresolved", f.kind, fmt.Sprintf("the %s future #%d of client %d is still unresolved one virtual hour after its client was closed", f.kind, f.tag, f.clientN))
		}
	}
	// (H1) truthful completion
	completed := 0
	for _, f := range r.futs {
		if !f.resolved || f.err != nil {
			continue
		}
		completed++
		send, sent := r.requestOf(f)
		if send == nil {
			res.Violate("C09", "C09.future-truthful", "no-request", fmt.Sprintf("the %s future #%d completed although its request never entered Send", f.kind, f.tag))
			continue
		}
		if f.kind == "pub0" {
			if sent == nil || sent.Err != nil || sent.Seq > f.at {
				res.Violate("C09", "C09.future-truthful", "pub0", fmt.Sprintf("the QoS 0 future #%d completed at event %d but its Send had not returned successfully", f.tag, f.at))
			}
			continue
		}
		ok := false
		for _, e := range w.Hist {
			if e.K == EvRecv && e.Err == nil && e.C == send.C && e.Seq < f.at && e.P != nil && ackMatches(f, send.P, e.P) {
				ok = true
				break
			}
		}
		if !ok {
			res.Violate("C09", "C09.future-truthful", f.kind, fmt.Sprintf("the %s future #%d completed successfully at event %d although the broker's acknowledgement had not been received (request %s sent at %d)", f.kind, f.tag, f.at, pktBrief(send.P), send.Seq))
		}
	}
	// (I1) store before send and (I2) retransmission on the next connect
	type ost struct {
		kind string
		tag  string
	}
	outstanding := map[packet.ID]ost{}
	saved := map[packet.ID]string{} // id -> payload currently saved in Outgoing
	lastSaved := map[packet.ID]string{}
	var connOrder []int
	connClean := map[int]bool{}
	resent := map[int]map[packet.ID]string{}
	type relWant struct {
		id  packet.ID
		seq uint64
	}
	wantRel := map[int][]relWant{}
	ended := map[int]bool{}
	expectResend := map[int]map[packet.ID]ost{}
	connacked := map[int]bool{}
	for _, e := range w.Hist {
		switch e.K {
		case EvSess:
			switch {
			case e.S == "save/1" && e.Err == nil:
				if q, ok := e.P.(*packet.Publish); ok {
					saved[q.ID] = string(q.Message.Payload)
					lastSaved[q.ID] = string(q.Message.Payload)
				} else if q, ok := e.P.(*packet.Pubrel); ok {
					saved[q.ID] = "PUBREL"
				}
			case strings.HasPrefix(e.S, "delete/1/") && e.Err == nil:
				var id int
				fmt.Sscanf(e.S, "delete/1/%d", &id)
				delete(saved, packet.ID(id))
			case e.S == "reset" && e.Err == nil:
				saved = map[packet.ID]string{}
				lastSaved = map[packet.ID]string{}
				outstanding = map[packet.ID]ost{}
				// a reset outside Connect is the clean-session teardown of the
				// current connection: what is written on it afterwards reaches nobody
				if len(connOrder) > 0 {
					ended[connOrder[len(connOrder)-1]] = true
				}
			}
		case EvClose:
			ended[e.C] = true
		case EvCallback:
			if e.Err != nil {
				for cn, isLast := range lastConnOfClient(connOrder, e.C) {
					if isLast {
						ended[cn] = true
					}
				}
			}
		case EvSend:
			if ended[e.C] {
				// the connection is over (its clean-session teardown may already have
				// reset the session): a buffered write on it reaches nobody
				if _, isConnect := e.P.(*packet.Connect); !isConnect {
					continue
				}
			}
			switch q := e.P.(type) {
			case *packet.Connect:
				connOrder = append(connOrder, e.C)
				connClean[e.C] = q.CleanSession
				exp := map[packet.ID]ost{}
				if !q.CleanSession {
					// "retransmits everything still recorded": the reference is what
					// the session holds (as seen through the session probe)
					for id, v := range saved {
						if v == "PUBREL" {
							exp[id] = ost{"PUBREL", ""}
						} else {
							exp[id] = ost{"PUBLISH", v}
						}
					}
				}
				expectResend[e.C] = exp
				resent[e.C] = map[packet.ID]string{}
			case *packet.Publish:
				if q.Message.QOS == 0 {
					break
				}
				if !q.Dup {
					// the latest save under this id must be this very publish (a spurious
					// acknowledgement carrying the id may have deleted the record again
					// between the save and the write; that is the broker's doing)
					if lastSaved[q.ID] != string(q.Message.Payload) && !sessFault {
						res.Violate("C09", "C09.store-before-send", "publish", fmt.Sprintf("%s entered Send at event %d but the session does not hold it (holds %q under that id)", pktBrief(q), e.Seq, saved[q.ID]))
					}
					outstanding[q.ID] = ost{"PUBLISH", string(q.Message.Payload)}
				} else {
					if resent[e.C] != nil {
						if _, ok := resent[e.C][q.ID]; !ok {
							resent[e.C][q.ID] = "PUBLISH"
						}
					}
					if exp, ok := expectResend[e.C][q.ID]; !ok || exp.kind != "PUBLISH" || exp.tag != string(q.Message.Payload) {
						if !sessFault {
							res.Violate("C09", "C09.resend", "unexpected-dup", fmt.Sprintf("connection %d retransmitted %s which was not outstanding (outstanding: %v)", e.C, pktBrief(q), expectResend[e.C]))
						}
					}
				}
			case *packet.Pubrel:
				if resent[e.C] != nil {
					if _, ok := resent[e.C][q.ID]; !ok {
						resent[e.C][q.ID] = "PUBREL"
					}
				}
				if o, ok := outstanding[q.ID]; ok && o.kind == "PUBREL" && saved[q.ID] != "PUBREL" && !sessFault {
					res.Violate("C09", "C09.store-before-send", "pubrel", fmt.Sprintf("PUBREL(%d) entered Send but the session holds %q under that id", q.ID, saved[q.ID]))
				}
			}
		case EvRecv:
			switch q := e.P.(type) {
			case *packet.Connack:
				if q.ReturnCode == 0 {
					connacked[e.C] = true
				}
			case *packet.Puback:
				if o, ok := outstanding[q.ID]; ok && o.kind == "PUBLISH" {
					delete(outstanding, q.ID)
				}
			case *packet.Pubcomp:
				delete(outstanding, q.ID)
			case *packet.Pubrec:
				if o, ok := outstanding[q.ID]; ok {
					outstanding[q.ID] = ost{"PUBREL", o.tag}
				}
				// the record of a stored QoS 2 publish is replaced by the PUBREL once
				// the PUBREC arrived - also for a publish retransmitted by a later client
				if v, ok := saved[q.ID]; ok && v != "PUBREL" && strings.Contains(v, "#") {
					wantRel[e.C] = append(wantRel[e.C], relWant{q.ID, e.Seq})
				}
			}
		}
	}
	if !sessFault {
		for cn, l := range wantRel {
			for _, rw := range l {
				// what happened on that connection after the PUBREC was received? The
				// processor handles one packet at a time: once Receive returns again on
				// that connection the PUBREC has been handled without an error.
				gotSave, gotSend, died, handled := false, false, false, false
			scan:
				for _, e := range w.Hist {
					if e.Seq <= rw.seq {
						continue
					}
					switch {
					case e.K == EvSess && e.S == "save/1" && e.Err == nil:
						if q, ok := e.P.(*packet.Pubrel); ok && q.ID == rw.id {
							gotSave = true
						}
					case e.K == EvSend && e.C == cn:
						if q, ok := e.P.(*packet.Pubrel); ok && q.ID == rw.id {
							gotSend = true
						}
					case e.K == EvRecv && e.C == cn:
						handled = true
						break scan
					case e.K == EvSess && (e.S == "reset" || e.S == fmt.Sprintf("delete/1/%d", rw.id)) && !gotSave:
						died = true // the record went away for another reason (clean teardown, spurious acknowledgement)
					}
				}
				if !handled {
					died = true
				} else {
					res.Count("pubrec_replacements_checked", 1)
				}
				if !died && (!gotSave || !gotSend) {
					res.Violate("C09", "C09.pubrec-replaces-record", fmt.Sprintf("save%v-send%v", gotSave, gotSend),
						fmt.Sprintf("connection %d received PUBREC(%d) for a QoS 2 publish that the session holds, but the record was not replaced by a PUBREL (saved: %v) / no PUBREL was sent (sent: %v)", cn, rw.id, gotSave, gotSend))
				}
			}
		}
	}
	resumesChecked := 0
	if !sessFault {
		for _, cn := range connOrder {
			exp := expectResend[cn]
			if len(exp) == 0 || connClean[cn] || !connacked[cn] {
				continue
			}
			c := w.Conns[cn-1]
			if c == nil {
				continue
			}
			// the connection must have lived long enough for the resend loop
			died := false
			for _, e := range w.Hist {
				if e.C == cn && (e.K == EvFault || (e.K == EvSent && e.Err != nil) || (e.K == EvRecv && e.Err != nil && len(resent[cn]) < len(exp))) {
					died = true
				}
			}
			if died {
				continue
			}
			resumesChecked++
			for id, o := range exp {
				if got, ok := resent[cn][id]; !ok {
					res.Violate("C09", "C09.resend", "not-retransmitted", fmt.Sprintf("connection %d resumed the session (clean session off) but the stored %s with id %d was not retransmitted (retransmitted: %v)", cn, o.kind, id, resent[cn]))
				} else if got != o.kind {
					res.Violate("C09", "C09.resend", "wrong-kind", fmt.Sprintf("connection %d retransmitted id %d as %s, the session held a %s", cn, id, got, o.kind))
				}
			}
		}
	}
	res.Count("futures", int64(len(r.futs)))
	res.Count("futures_completed", int64(completed))
	res.Count("futures_cancelled", int64(len(r.futs)-completed-unresolved))
	res.Count("resumes_with_outstanding_checked", int64(resumesChecked))
	res.Count("clients", int64(len(r.clients)))
	res.Nontrivial = len(r.futs) >= 2
	res.State = fmt.Sprintf("%d/%d/%d", len(r.futs), completed, resumesChecked)
}
