// Package e2e is the W-e2e world: real client.Client instances talking to the
// real broker over simulated links - both ends real code, no scripted peer
// whose reading of MQTT could be wrong in the same way as an oracle.
//
// It registers the checks that have an end-to-end seed class and dispatches
// their other seeds to the scripted-peer worlds:
//
//	C15  order per publisher and QoS level at the subscriber's application
//	C08  an acknowledged QoS>=1 publish is not lost on the broker's side for a
//	     persistent subscriber that is cut and resumed
//	C10  the subscribing client passes on what it acknowledges, QoS 2 once
//	C07  publishers with persistent sessions are cut and resumed in the middle
//	     of handshakes: nothing is handed to the backend again after acceptance,
//	     nothing acknowledged to the publisher was never handed over
//
// A violation is attributed with the help of the broker-side history (Backend
// seam and the broker's view of each connection), so that each class reports
// only what its own property states.
package e2e

import (
	"errors"
	"fmt"
	"runtime"
	"testing"
	"time"

	"github.com/256dpi/gomqtt/client"
	"github.com/256dpi/gomqtt/packet"
	"github.com/256dpi/gomqtt/session"
	"github.com/256dpi/gomqtt/transport"

	"verif/sim/core"
	"verif/sim/rt"
	"verif/sim/worlds/brk"
	"verif/sim/worlds/cli"
)

func init() {
	core.Register(&core.Check{ID: "C15", Expand: expand15, Run: run(brk.RunC15)})
	core.Register(&core.Check{ID: "C07", Expand: classExpand("C07", brk.ExpandC07, 11, 6), Run: run(brk.RunC07)})
	core.Register(&core.Check{ID: "C08", Expand: classExpand("C08", brk.ExpandC08, 6, 5), Run: run(brk.RunC08)})
	core.Register(&core.Check{ID: "C10", Expand: classExpand("C10", cli.ExpandC10, 6, 5), Run: run(cli.RunC10)})
}

func expand15(t *testing.T, seed uint64, tier string) []*core.Plan {
	plans := brk.ExpandC15(t, seed, tier)
	if seed%3 == 2 {
		r := core.NewRand(core.Derive(seed, "e2e15"))
		for _, p := range plans {
			p.SetKnob("e2e", 1)
			p.SetKnob("gate", 0)
			if r.Chance(1, 2) {
				// publishers keep their sessions too and are cut and resumed; their
				// packet id counters start near the 16-bit wrap in some runs
				p.SetKnob("ppersist", 1)
				p.SetKnob("idstart", r.Pick(1, 65533, 65534, 65535))
				// in half of these runs the application publishes its next message
				// from a goroutine of its own while the resumed client is still busy
				// with the CONNACK (drawn from a stream of its own: the plans stay
				// what they were)
				if core.NewRand(core.Derive(seed, "ppoll")).Chance(1, 2) {
					p.SetKnob("ppoll", 1)
				}
				np := p.Knob("pubs", 1)
				var items []core.Item
				off := map[int]bool{}
				for _, it := range p.Items {
					items = append(items, it)
					if it.K != "pub" {
						continue
					}
					switch q := 1 + r.Intn(np); {
					case r.Chance(1, 6) && !off[q]:
						items = append(items, core.Item{K: "pcut", P: q})
						off[q] = true
					case r.Chance(1, 4) && off[q]:
						items = append(items, core.Item{K: "presume", P: q})
						off[q] = false
					}
				}
				p.Items = items
				if p.Knob("ppoll", 0) == 1 {
					// ... and the publisher is lost by a write that fails before the
					// packet travels: the broker sees that message for the first time
					// as a retransmission, which the new message must not overtake
					for i, it := range p.Items {
						if it.K == "pcut" {
							p.Items[i] = core.Item{K: "cfail", P: it.P, C: 1, A: 1, B: 0}
						}
					}
				}
			}
		}
	}
	return plans
}

type expandFn func(*testing.T, uint64, string) []*core.Plan
type runFn func(*testing.T, *core.Plan) *core.Result

func classExpand(prop string, inner expandFn, mod, rem uint64) expandFn {
	return func(t *testing.T, seed uint64, tier string) []*core.Plan {
		if seed%mod == rem {
			return []*core.Plan{genE2E(seed, prop)}
		}
		return inner(t, seed, tier)
	}
}

func run(inner runFn) runFn {
	return func(t *testing.T, p *core.Plan) *core.Result {
		if p.Knob("e2e", 0) == 1 {
			return runE2E(t, p)
		}
		return inner(t, p)
	}
}

// genE2E draws an end-to-end plan for the C07/C08/C10 classes.
func genE2E(seed uint64, prop string) *core.Plan {
	r := core.NewRand(core.Derive(seed, "plan"))
	p := &core.Plan{Check: prop, Seed: seed}
	np, ns := r.Range(1, 3), r.Range(1, 2)
	p.SetKnob("e2e", 1)
	p.SetKnob("pubs", np)
	p.SetKnob("subs", ns)
	p.SetKnob("window", r.Range(1, 10))
	p.SetKnob("chunk", r.Pick(0, 0, -1, 1))
	p.Yield = r.Pick(0, 0, 8)
	if prop == "C07" {
		p.SetKnob("ppersist", 1)
	}
	for s := 1; s <= ns; s++ {
		it := core.Item{K: "sub", P: s, L: []int{r.Intn(3), r.Pick(1, 2, 2)}}
		if r.Chance(1, 3) {
			it.L = append(it.L, r.Intn(3), r.Pick(1, 2))
		}
		p.Items = append(p.Items, it)
	}
	seq := map[int]int{}
	offline, poffline := map[int]bool{}, map[int]bool{}
	n := r.Range(4, 40)
	for i := 0; i < n; i++ {
		w := []int{12, 2, 2, 0, 0, 2, 2}
		if prop == "C07" {
			w = []int{12, 1, 1, 3, 3, 2, 2}
		}
		switch r.Weighted(w) {
		case 5, 6:
			// a precisely placed failure: the k-th packet from now that the client
			// (5) or the broker (6) sends on that party's connection fails, before
			// it leaves or after it has arrived
			side := "cfail"
			if r.Chance(1, 2) {
				side = "bfail"
			}
			it := core.Item{K: side, P: 1 + r.Intn(ns), A: r.Range(1, 4), B: r.Intn(2)}
			if prop == "C07" && r.Chance(2, 3) {
				it.C, it.P = 1, 1+r.Intn(np) // a publisher's connection
			}
			p.Items = append(p.Items, it)
		case 0:
			pb := 1 + r.Intn(np)
			seq[pb]++
			p.Items = append(p.Items, core.Item{K: "pub", P: pb, A: r.Pick(1, 2, 2, 0), B: r.Intn(2), D: pb*100000 + seq[pb]})
		case 1:
			if s := 1 + r.Intn(ns); !offline[s] {
				p.Items = append(p.Items, core.Item{K: "cut", P: s})
				offline[s] = true
			}
		case 2:
			if s := 1 + r.Intn(ns); offline[s] {
				p.Items = append(p.Items, core.Item{K: "resume", P: s})
				offline[s] = false
			}
		case 3:
			if q := 1 + r.Intn(np); !poffline[q] {
				p.Items = append(p.Items, core.Item{K: "pcut", P: q})
				poffline[q] = true
			}
		case 4:
			if q := 1 + r.Intn(np); poffline[q] {
				p.Items = append(p.Items, core.Item{K: "presume", P: q})
				poffline[q] = false
			}
		}
	}
	return p
}

// hookSession tells the harness when the client reads the packets to retransmit
// (client.processConnack): the moment at which an application goroutine that
// keeps trying to publish competes with the retransmissions.
type hookSession struct {
	*session.MemorySession
	onAll func()
}

func (h *hookSession) AllPackets(d session.Direction) ([]packet.Generic, error) {
	l, err := h.MemorySession.AllPackets(d)
	if d == session.Outgoing && h.onAll != nil {
		h.onAll()
	}
	return l, err
}

type dialer struct {
	w        *brk.World
	last     *brk.RawLink
	lastConn *cliConn
	forParty *party // who is dialling (set by connect)
}

func (d *dialer) Dial(string) (transport.Conn, error) {
	d.last = d.w.DialIn()
	d.lastConn = &cliConn{Conn: transport.NewNetConn(d.last.Link.A), rl: d.last, res: d.w.Res}
	if d.forParty != nil {
		d.lastConn.log, d.lastConn.connNo = &d.forParty.sent, d.forParty.conns
	}
	return d.lastConn, nil
}

var errInjected = errors.New("injected connection failure")

// cliConn is the real client's side of a connection: the real NetConn over the
// simulated link, plus the ability to make the k-th Send fail - before the
// packet leaves, or after it went out (it reaches the broker, then the link dies).
type cliConn struct {
	transport.Conn
	rl     *brk.RawLink
	res    *core.Result
	sends  int
	failAt int
	post   bool
	log    *[]sendRec // the owning party's record of what its clients handed to connections
	connNo int
}

type sendRec struct {
	conn int
	kind packet.Type
	id   packet.ID
	dup  bool
	tag  int
}

func (c *cliConn) Send(pkt packet.Generic, async bool) error {
	c.sends++
	if c.log != nil {
		switch q := pkt.(type) {
		case *packet.Publish:
			if q.Message.QOS > 0 {
				*c.log = append(*c.log, sendRec{c.connNo, packet.PUBLISH, q.ID, q.Dup, brk.TagOf(q.Message.Payload)})
			}
		case *packet.Pubrel:
			*c.log = append(*c.log, sendRec{c.connNo, packet.PUBREL, q.ID, false, -1})
		}
	}
	if c.failAt != c.sends {
		return c.Conn.Send(pkt, async)
	}
	if !c.post {
		c.res.Count("fault_client_send_before", 1)
		c.rl.Link.Cut()
		_ = c.Conn.Close()
		return errInjected
	}
	c.res.Count("fault_client_send_after", 1)
	err := c.Conn.Send(pkt, false)
	if err == nil {
		c.rl.CutA2BAt = c.rl.Link.A2B.WrittenBytes()
		err = errInjected
	}
	return err
}

type cbRec struct {
	tag, qos int
	seq      uint64
	conn     int
}

// party is one real client with its session: a subscriber or a publisher.
type party struct {
	id    string
	slot  int
	clean bool
	sess  *session.MemorySession
	cur   *client.Client
	link  *brk.RawLink
	conn  *cliConn
	links map[int]bool // broker-side connection indices this party ever used
	dead  bool
	conns int
	cbs   []cbRec
	subs  []packet.Subscription
	sent  []sendRec
}

var filters = []string{"o/#", "o/a", "o/+"}
var topics = []string{"o/a", "o/b"}

func runE2E(t *testing.T, p *core.Plan) *core.Result {
	prop := p.Check
	res := &core.Result{Check: prop, Seed: p.Seed}
	cfg := brk.DefaultConfig()
	cfg.Chunk = p.Knob("chunk", 0)
	cfg.Inflight = p.Knob("window", 10)
	cfg.QueueSize = 200
	cfg.ParPublishes = 128
	np, ns := p.Knob("pubs", 1), p.Knob("subs", 1)
	ppersist := p.Knob("ppersist", 0) == 1
	var w *brk.World
	ptxt := core.Bubble(t, p.Seed, p.Yield, func() {
		w = brk.NewWorld(cfg, p.Seed, res)
		d := &dialer{w: w}
		closeClient := func(c *client.Client) {
			if c != nil {
				go func() { _ = c.Close() }()
			}
		}
		var onResend func(s *party, c *client.Client)
		connect := func(s *party) {
			c := client.New()
			if s.sess != nil {
				c.Session = s.sess
				if onResend != nil && s.conns > 0 {
					c.Session = &hookSession{MemorySession: s.sess, onAll: func() { onResend(s, c) }}
				}
			}
			s.conns++
			cn := s.conns
			s.dead = false
			c.Callback = func(m *packet.Message, err error) error {
				if err != nil {
					if cn == s.conns {
						s.dead = true
					}
					return nil
				}
				s.cbs = append(s.cbs, cbRec{brk.TagOf(m.Payload), int(m.QOS), rt.Tick(), cn})
				return nil
			}
			cc := client.NewConfigWithClientID("sim://broker", s.id)
			cc.Dialer = d
			cc.CleanSession = s.clean
			cc.KeepAlive = "0s"
			d.forParty = s
			if _, err := c.Connect(cc); err != nil {
				s.dead = true
				s.cur = nil
				return
			}
			s.cur, s.link, s.conn = c, d.last, d.lastConn
			s.links[d.last.Idx] = true
		}
		pubs := map[int]*party{}
		pubQoS := map[int]int{}
		type pf struct {
			tag int
			f   client.GenericFuture
		}
		var pfs []pf
		for i := 1; i <= np; i++ {
			q := &party{id: fmt.Sprintf("p%d", i), slot: i, clean: !ppersist, links: map[int]bool{}}
			if ppersist {
				q.sess = session.NewMemorySession()
				if st := p.Knob("idstart", 1); st != 1 {
					q.sess.Counter = session.NewIDCounterWithNext(packet.ID(st))
				}
			}
			pubs[i] = q
			connect(q)
			if q.dead {
				res.Violate(prop, prop+".e2e-setup", "connect", "publisher could not connect")
				return
			}
		}
		subs := map[int]*party{}
		for i := 1; i <= ns; i++ {
			s := &party{id: fmt.Sprintf("s%d", i), slot: i, sess: session.NewMemorySession(), links: map[int]bool{}}
			subs[i] = s
			connect(s)
		}
		w.Settle()
		next := 0
		consumed := map[int]bool{}
		if p.Knob("ppoll", 0) == 1 {
			onResend = func(q *party, c *client.Client) {
				if pubs[q.slot] != q {
					return
				}
				// the publisher's next message, taken out of the plan
				idx := -1
				for i := next; i < len(p.Items); i++ {
					if it := p.Items[i]; it.K == "pub" && it.P == q.slot && !consumed[i] {
						idx = i
						break
					}
				}
				if idx < 0 {
					return
				}
				consumed[idx] = true
				it := p.Items[idx]
				pubQoS[it.D] = it.A
				res.Count("publishes_during_connack", 1)
				go func() {
					for i := 0; i < 24; i++ {
						f, err := c.Publish(topics[it.B%2], brk.MsgPayload(it.D, 0), packet.QOS(it.A), false)
						if err == nil {
							pfs = append(pfs, pf{it.D, f})
							res.Count("publishes_during_connack_admitted", 1)
							return
						}
						runtime.Gosched()
					}
				}()
			}
		}
		for next < len(p.Items) && p.Items[next].K == "sub" {
			it := p.Items[next]
			next++
			s := subs[it.P]
			var l []packet.Subscription
			for i := 0; i+1 < len(it.L); i += 2 {
				l = append(l, packet.Subscription{Topic: filters[it.L[i]%3], QOS: packet.QOS(it.L[i+1] % 3)})
			}
			s.subs = append(s.subs, l...)
			if s.cur == nil {
				res.Violate(prop, prop+".e2e-setup", "subscribe", "subscriber could not connect")
				return
			}
			if _, err := s.cur.SubscribeMultiple(l); err != nil {
				res.Violate(prop, prop+".e2e-setup", "subscribe", err.Error())
			}
		}
		w.Settle()
		for steps := 0; steps < 60000; steps++ {
			brkWait()
			w.Steps++
			var acts []string
			var wt []int
			if next < len(p.Items) {
				acts, wt = append(acts, "item"), append(wt, 4)
			}
			nets := w.NetActions()
			if len(nets) > 0 {
				acts, wt = append(acts, "net"), append(wt, 8)
			}
			if nw := rt.NextWake(); nw != 0 && nw-time.Now().UnixNano() <= int64(12*time.Millisecond) {
				acts, wt = append(acts, "timer"), append(wt, 3)
			}
			if next >= len(p.Items) || len(acts) == 0 {
				break
			}
			switch acts[w.Sched.Weighted(wt)] {
			case "item":
				it := p.Items[next]
				next++
				switch it.K {
				case "pub":
					if consumed[next-1] {
						break // published by the application goroutine during the CONNACK
					}
					pubQoS[it.D] = it.A
					if q := pubs[it.P]; q.cur != nil {
						f, err := q.cur.Publish(topics[it.B%2], brk.MsgPayload(it.D, 0), packet.QOS(it.A), false)
						if err == nil {
							pfs = append(pfs, pf{it.D, f})
						}
					}
				case "cut":
					if s := subs[it.P]; !s.dead && s.link != nil {
						s.link.Link.Cut()
						res.Count("subscriber_cuts", 1)
					}
				case "resume":
					if s := subs[it.P]; s.dead {
						closeClient(s.cur)
						connect(s)
					}
				case "cfail", "bfail":
					pt := subs[it.P]
					if it.C == 1 {
						pt = pubs[it.P]
					}
					if pt == nil || pt.dead || pt.conn == nil {
						break
					}
					if it.K == "cfail" {
						pt.conn.failAt, pt.conn.post = pt.conn.sends+it.A, it.B == 1
					} else {
						pt.link.FailBrokerSend(it.A, it.B == 1)
					}
					res.Count("placed_faults_armed", 1)
				case "pcut":
					if q := pubs[it.P]; !q.dead && q.link != nil {
						q.link.Link.Cut()
						res.Count("publisher_cuts", 1)
					}
				case "presume":
					if q := pubs[it.P]; q.dead {
						closeClient(q.cur)
						connect(q)
					}
				}
			case "net":
				nets[w.Sched.Intn(len(nets))]()
			case "timer":
				d := rt.NextWake() - time.Now().UnixNano()
				if d < 0 {
					d = 0
				}
				time.Sleep(time.Duration(d))
			}
		}
		w.Settle()
		// healthy end: everybody resumes, everything drains
		for round := 0; round < 3; round++ {
			for i := 1; i <= np; i++ {
				if q := pubs[i]; q.dead && ppersist {
					closeClient(q.cur)
					connect(q)
				}
			}
			for i := 1; i <= ns; i++ {
				if s := subs[i]; s.dead {
					closeClient(s.cur)
					connect(s)
				}
			}
			w.Settle()
		}
		completed := map[int]bool{}
		for _, x := range pfs {
			if x.f.Wait(time.Nanosecond) == nil {
				completed[x.tag] = true
			}
		}
		res.Count("publish_futures_completed", int64(len(completed)))
		j := &judgeCtx{w: w, p: p, prop: prop, res: res, subs: subs, pubs: pubs, pubQoS: pubQoS, completed: completed}
		j.judge()
		for _, q := range pubs {
			closeClient(q.cur)
		}
		for _, s := range subs {
			closeClient(s.cur)
		}
		w.Settle()
		if leaks := w.Teardown(); len(leaks) > 0 {
			res.Violate(prop, prop+".leak", leaks[0], fmt.Sprintf("%d goroutines alive after teardown: %v", len(leaks), leaks))
		}
		res.Yields = rt.Yields()
		res.SimNanos = int64(core.SimNow())
	})
	if ptxt != "" {
		res.Violate(prop, prop+".panic", "bubble-e2e", ptxt)
	}
	if w != nil {
		res.Hash, res.Events, res.Steps = w.Log.Hash(), w.Log.N, w.Steps
		res.Sched = w.Log.Hash()
	}
	res.Count("e2e_runs", 1)
	if p.Seed%67 == 2 {
		res.Sample = "e2e " + p.Brief(12)
	}
	return res
}

func tagTopic(p *core.Plan, tag int) int {
	for _, it := range p.Items {
		if it.K == "pub" && it.D == tag {
			return it.B
		}
	}
	return 0
}

func matches(filter, topic string) bool {
	switch filter {
	case "o/#", "o/+":
		return true
	}
	return filter == topic
}

type judgeCtx struct {
	w         *brk.World
	p         *core.Plan
	prop      string
	res       *core.Result
	subs      map[int]*party
	pubs      map[int]*party
	pubQoS    map[int]int
	completed map[int]bool
}

// brokerView summarises what the broker did with message `tag` towards one
// subscriber, from the broker's side of that subscriber's connections.
type brokerView struct {
	newSends  int  // PUBLISH packets not flagged DUP that entered Send
	handshake bool // the broker received the PUBACK / PUBCOMP that ends the delivery
}

func (j *judgeCtx) view(s *party, tag int) brokerView {
	var v brokerView
	idTag := map[packet.ID]int{} // packet ids are a property of the session, they survive reconnects
	for _, e := range j.w.Hist {
		if !s.links[e.C] {
			continue
		}
		switch e.K {
		case brk.EvConnSend:
			if q, ok := e.P.(*packet.Publish); ok && q.Message.QOS > 0 {
				t := brk.TagOf(q.Message.Payload)
				idTag[q.ID] = t
				if t == tag && !q.Dup {
					v.newSends++
				}
			}
		case brk.EvConnRecv:
			switch q := e.P.(type) {
			case *packet.Puback:
				if t, ok := idTag[q.ID]; ok {
					if t == tag {
						v.handshake = true
					}
					delete(idTag, q.ID)
				}
			case *packet.Pubcomp:
				if t, ok := idTag[q.ID]; ok {
					if t == tag {
						v.handshake = true
					}
					delete(idTag, q.ID)
				}
			}
		}
	}
	return v
}

func (j *judgeCtx) judge() {
	res, prop := j.res, j.prop
	n := 0
	// a message that its publisher had to retransmit may reach a subscriber for
	// the first time as the duplicate (the first copy was lost with that
	// subscriber's connection): only first transmissions are ordered
	retransmitted := map[int]bool{}
	for _, q := range j.pubs {
		for _, r := range q.sent {
			if r.kind == packet.PUBLISH && r.dup {
				retransmitted[r.tag] = true
			}
		}
	}
	for _, s := range j.subs {
		last := map[string]int{}
		seen := map[int]int{}
		for _, cb := range s.cbs {
			if cb.tag < 0 {
				continue
			}
			seen[cb.tag]++
			if seen[cb.tag] > 1 || retransmitted[cb.tag] {
				continue
			}
			key := fmt.Sprintf("p%d/pq%d/dq%d", cb.tag/100000, j.pubQoS[cb.tag], cb.qos)
			if prev, ok := last[key]; ok && cb.tag%100000 <= prev%100000 && prop == "C15" {
				res.Violate("C15", "C15.e2e-order", fmt.Sprintf("pq%d-dq%d", j.pubQoS[cb.tag], cb.qos), fmt.Sprintf("subscriber s%d's application saw message %d of publisher %d (published QoS %d, delivered QoS %d) after message %d", s.slot, cb.tag%100000, cb.tag/100000, j.pubQoS[cb.tag], cb.qos, prev%100000))
			}
			last[key] = cb.tag
			n++
		}
		// QoS 2 end to end: once at the application
		for tag, k := range seen {
			if k < 2 || j.pubQoS[tag] != 2 {
				continue
			}
			q2 := 0
			for _, cb := range s.cbs {
				if cb.tag == tag && cb.qos == 2 {
					q2++
				}
			}
			if q2 < 2 {
				continue
			}
			v := j.view(s, tag)
			switch {
			case v.newSends > 1 && prop == "C08":
				res.Violate("C08", "C08.e2e-qos2-new-once", "twice", fmt.Sprintf("the broker sent QoS 2 message #%d to subscriber s%d %d times as a new (non-DUP) PUBLISH; its application saw it %d times", tag, s.slot, v.newSends, q2))
			case v.newSends <= 1 && prop == "C10":
				res.Violate("C10", "C10.e2e-exactly-once", "twice", fmt.Sprintf("subscriber s%d's client passed QoS 2 message #%d to the application %d times although the broker sent it as a new PUBLISH %d time(s)", s.slot, tag, q2, v.newSends))
			}
		}
	}
	// the publishing clients' own retransmissions after a resume leave in the
	// order of the original transmission (ids may have wrapped in between)
	if prop == "C15" {
		for _, q := range j.pubs {
			first := map[packet.ID]int{} // id -> index of the first transmission of the flow using it
			started := map[int]bool{}    // connection -> a new (non-DUP) publish has been sent on it
			lastIdx := map[int]int{}
			dupOn := map[string]bool{} // "conn/id": a DUP PUBLISH with that id went out on that connection
			for i, r := range q.sent {
				// a PUBREL is a retransmission only if it was not preceded, on the
				// same connection, by the (retransmitted) PUBLISH it answers for
				resend := (r.kind == packet.PUBLISH && r.dup) ||
					(r.kind == packet.PUBREL && !started[r.conn] && r.conn > 1 && !dupOn[fmt.Sprintf("%d/%d", r.conn, r.id)])
				if r.kind == packet.PUBLISH && r.dup {
					dupOn[fmt.Sprintf("%d/%d", r.conn, r.id)] = true
					if started[r.conn] {
						res.Count("e2e_client_retransmission_after_new_publish", 1)
						// a newer message of the same QoS level written before the
						// retransmission of an older one: the client cannot know whether
						// the first transmission of the older one arrived, and where it
						// did not, the subscribers get the two in the wrong order
						for _, n := range q.sent[:i] {
							if n.conn == r.conn && n.kind == packet.PUBLISH && !n.dup && n.tag/100000 == r.tag/100000 && n.tag > r.tag && j.pubQoS[n.tag] == j.pubQoS[r.tag] {
								res.Violate("C15", "C15.e2e-client-new-before-resend", fmt.Sprintf("q%d", j.pubQoS[r.tag]), fmt.Sprintf("publisher %s, connection %d: message %d (QoS %d) was written before the retransmission of the older message %d of the same QoS level, whose first transmission may never have arrived: the subscribers would get the two in the wrong order", q.id, r.conn, n.tag%100000, j.pubQoS[n.tag], r.tag%100000))
								break
							}
						}
					}
				}
				if r.kind == packet.PUBLISH && !r.dup {
					first[r.id] = i
					started[r.conn] = true
					continue
				}
				if !resend || started[r.conn] {
					continue
				}
				orig, ok := first[r.id]
				if !ok {
					continue
				}
				if prev, seen := lastIdx[r.conn]; seen && orig < prev {
					res.Violate("C15", "C15.e2e-client-resend-order", "reordered", fmt.Sprintf("publisher %s, connection %d: retransmitted %s(id %d), first sent as its transmission #%d, after a packet first sent as #%d", q.id, r.conn, r.kind, r.id, orig, prev))
				}
				lastIdx[r.conn] = orig
				res.Count("e2e_client_retransmissions_ordered", 1)
			}
		}
	}
	res.Count("e2e_callbacks_ordered", int64(n))
	res.Nontrivial = n >= 2
	res.State = fmt.Sprintf("e2e/%d", n)

	// acceptance at the Backend seam, per message
	accepted := map[int]int{}
	entered := map[int]int{}
	afterAcc := map[int]int{}
	for _, e := range j.w.Hist {
		if e.M == nil || e.Call != "Publish" {
			continue
		}
		tag := brk.TagOf(e.M.Payload)
		switch e.K {
		case brk.EvAckRel:
			accepted[tag]++
		case brk.EvBkEnter:
			entered[tag]++
			if accepted[tag] > 0 {
				afterAcc[tag]++
			}
		}
	}
	if prop == "C07" {
		for tag, q := range j.pubQoS {
			if q == 2 && afterAcc[tag] > 0 {
				res.Violate("C07", "C07.e2e-exactly-once", "forwarded-twice", fmt.Sprintf("QoS 2 message #%d of a real publisher client that was cut and resumed was handed to the backend again after the backend had accepted it (%d hand-overs)", tag, entered[tag]))
			}
			if q > 0 && j.completed[tag] && accepted[tag] == 0 {
				res.Violate("C07", "C07.e2e-at-least-once", "acked-not-forwarded", fmt.Sprintf("the publisher's future for QoS %d message #%d completed but the backend never accepted the message", q, tag))
			}
		}
		res.Count("e2e_publishes_accepted", int64(len(accepted)))
	}

	// no loss end to end: an accepted QoS>=1 publish reaches every persistent
	// subscriber whose matching filters all grant QoS>=1 and that was resumed
	for tag, q := range j.pubQoS {
		if q == 0 || accepted[tag] == 0 {
			continue
		}
		if !j.completed[tag] {
			continue // the publisher was never told: nothing was promised
		}
		topic := topics[tagTopic(j.p, tag)%2]
		for _, s := range j.subs {
			minq, match := 3, false
			for _, sb := range s.subs {
				if matches(sb.Topic, topic) {
					match = true
					if int(sb.QOS) < minq {
						minq = int(sb.QOS)
					}
				}
			}
			if !match || minq == 0 || s.dead {
				continue
			}
			cnt := 0
			for _, cb := range s.cbs {
				if cb.tag == tag {
					cnt++
				}
			}
			if cnt > 0 {
				continue
			}
			v := j.view(s, tag)
			switch {
			case !v.handshake && prop == "C08":
				res.Violate("C08", "C08.e2e-no-loss", "lost", fmt.Sprintf("message #%d (QoS %d) was accepted by the backend and acknowledged to its publisher, subscriber s%d holds a persistent QoS>=1 subscription and was resumed, but the broker never completed a delivery of it to s%d", tag, q, s.slot, s.slot))
			case v.handshake && prop == "C10":
				res.Violate("C10", "C10.e2e-acked-not-delivered", "lost", fmt.Sprintf("subscriber s%d's client acknowledged message #%d to the broker but never passed it to the application", s.slot, tag))
			}
		}
	}
}
