// Package e2e is the W-e2e world: real client.Client instances talking to the
// real broker over simulated links - both ends real code. It carries the
// end-to-end half of C15 (per-publisher order, callback order, exactly-once and
// no-loss across cuts and resumptions) and registers the C15 check.
package e2e

import (
	"fmt"
	"testing"
	"time"

	"github.com/256dpi/gomqtt/client"
	"github.com/256dpi/gomqtt/packet"
	"github.com/256dpi/gomqtt/session"
	"github.com/256dpi/gomqtt/transport"

	"verif/sim/core"
	"verif/sim/rt"
	"verif/sim/worlds/brk"
)

func init() {
	core.Register(&core.Check{ID: "C15", Expand: expand, Run: run})
}

func expand(t *testing.T, seed uint64, tier string) []*core.Plan {
	plans := brk.ExpandC15(t, seed, tier)
	if seed%3 == 2 {
		for _, p := range plans {
			p.SetKnob("e2e", 1)
			p.SetKnob("gate", 0)
		}
	}
	return plans
}

func run(t *testing.T, p *core.Plan) *core.Result {
	if p.Knob("e2e", 0) == 1 {
		return runE2E(t, p)
	}
	return brk.RunC15(t, p)
}

type dialer struct {
	w    *brk.World
	last *brk.RawLink
}

func (d *dialer) Dial(string) (transport.Conn, error) {
	d.last = d.w.DialIn()
	return transport.NewNetConn(d.last.Link.A), nil
}

type cbRec struct {
	tag, qos int
	seq      uint64
	conn     int
}

type subscriber struct {
	slot  int
	sess  *session.MemorySession
	cur   *client.Client
	link  *brk.RawLink
	dead  bool
	conns int
	cbs   []cbRec
	subs  []packet.Subscription
}

var filters = []string{"o/#", "o/a", "o/+"}
var topics = []string{"o/a", "o/b"}

func runE2E(t *testing.T, p *core.Plan) *core.Result {
	res := &core.Result{Check: "C15", Seed: p.Seed}
	cfg := brk.DefaultConfig()
	cfg.Chunk = p.Knob("chunk", 0)
	cfg.Inflight = p.Knob("window", 10)
	cfg.QueueSize = 200
	cfg.ParPublishes = 128
	np, ns := p.Knob("pubs", 1), p.Knob("subs", 1)
	var w *brk.World
	ptxt := core.Bubble(t, p.Seed, p.Yield, func() {
		w = brk.NewWorld(cfg, p.Seed, res)
		d := &dialer{w: w}
		mkcfg := func(id string, clean bool) *client.Config {
			c := client.NewConfigWithClientID("sim://broker", id)
			c.Dialer = d
			c.CleanSession = clean
			c.KeepAlive = "0s"
			return c
		}
		closers := 0
		closeClient := func(c *client.Client) {
			closers++
			go func() { _ = c.Close() }()
		}
		// publishers
		pubs := map[int]*client.Client{}
		pubQoS := map[int]int{}
		type pf struct {
			tag int
			f   client.GenericFuture
		}
		var pfs []pf
		for i := 1; i <= np; i++ {
			c := client.New()
			if _, err := c.Connect(mkcfg(fmt.Sprintf("p%d", i), true)); err != nil {
				res.Violate("C15", "C15.e2e-setup", "connect", err.Error())
				return
			}
			pubs[i] = c
		}
		// subscribers
		subs := map[int]*subscriber{}
		connect := func(s *subscriber) {
			c := client.New()
			c.Session = s.sess
			s.conns++
			cn := s.conns
			s.dead = false
			c.Callback = func(m *packet.Message, err error) error {
				if err != nil {
					if cn == s.conns {
						s.dead = true
					}
					return nil
				}
				s.cbs = append(s.cbs, cbRec{brk.TagOf(m.Payload), int(m.QOS), rt.Tick(), cn})
				return nil
			}
			if _, err := c.Connect(mkcfg(fmt.Sprintf("s%d", s.slot), false)); err != nil {
				s.dead = true
				return
			}
			s.cur, s.link = c, d.last
		}
		for i := 1; i <= ns; i++ {
			s := &subscriber{slot: i, sess: session.NewMemorySession()}
			subs[i] = s
			connect(s)
		}
		w.Settle()
		next := 0
		for next < len(p.Items) && p.Items[next].K == "sub" {
			it := p.Items[next]
			next++
			s := subs[it.P]
			var l []packet.Subscription
			for i := 0; i+1 < len(it.L); i += 2 {
				l = append(l, packet.Subscription{Topic: filters[it.L[i]%3], QOS: packet.QOS(it.L[i+1] % 3)})
			}
			s.subs = append(s.subs, l...)
			if _, err := s.cur.SubscribeMultiple(l); err != nil {
				res.Violate("C15", "C15.e2e-setup", "subscribe", err.Error())
			}
		}
		w.Settle()
		for steps := 0; steps < 60000; steps++ {
			brkWait()
			w.Steps++
			var acts []string
			var wt []int
			if next < len(p.Items) {
				acts, wt = append(acts, "item"), append(wt, 4)
			}
			nets := w.NetActions()
			if len(nets) > 0 {
				acts, wt = append(acts, "net"), append(wt, 8)
			}
			if nw := rt.NextWake(); nw != 0 && nw-time.Now().UnixNano() <= int64(12*time.Millisecond) {
				acts, wt = append(acts, "timer"), append(wt, 3)
			}
			if next >= len(p.Items) || len(acts) == 0 {
				break
			}
			switch acts[w.Sched.Weighted(wt)] {
			case "item":
				it := p.Items[next]
				next++
				switch it.K {
				case "pub":
					pubQoS[it.D] = it.A
					f, err := pubs[it.P].Publish(topics[it.B%2], brk.MsgPayload(it.D, 0), packet.QOS(it.A), false)
					if err == nil {
						pfs = append(pfs, pf{it.D, f})
					}
				case "cut":
					if s := subs[it.P]; !s.dead {
						s.link.Link.Cut()
						res.Count("subscriber_cuts", 1)
					}
				case "resume":
					if s := subs[it.P]; s.dead {
						closeClient(s.cur)
						connect(s)
					}
				}
			case "net":
				nets[w.Sched.Intn(len(nets))]()
			case "timer":
				d := rt.NextWake() - time.Now().UnixNano()
				if d < 0 {
					d = 0
				}
				time.Sleep(time.Duration(d))
			}
		}
		w.Settle()
		// healthy end: everybody resumes, everything drains
		for round := 0; round < 3; round++ {
			for i := 1; i <= ns; i++ {
				if s := subs[i]; s.dead {
					closeClient(s.cur)
					connect(s)
				}
			}
			w.Settle()
		}
		judge(w, subs, pubQoS, res)
		completed := 0
		for _, x := range pfs {
			if x.f.Wait(time.Nanosecond) == nil {
				completed++
			}
		}
		res.Count("publish_futures_completed", int64(completed))
		// no loss end to end: an acknowledged QoS>=1 publish reaches every
		// persistent subscriber whose filters all grant QoS>=1
		for _, x := range pfs {
			if pubQoS[x.tag] == 0 || x.f.Wait(time.Nanosecond) != nil {
				continue
			}
			topic := topics[tagTopic(p, x.tag)%2]
			for _, s := range subs {
				minq, match := 3, false
				for _, sb := range s.subs {
					if matches(sb.Topic, topic) {
						match = true
						if int(sb.QOS) < minq {
							minq = int(sb.QOS)
						}
					}
				}
				if !match || minq == 0 || s.dead {
					continue
				}
				n := 0
				for _, cb := range s.cbs {
					if cb.tag == x.tag {
						n++
					}
				}
				if n == 0 {
					res.Violate("C15", "C15.e2e-no-loss", "lost", fmt.Sprintf("publish #%d (QoS %d) was acknowledged to the real publisher client but never reached the callback of subscriber s%d, which holds a persistent QoS>=1 subscription and was resumed", x.tag, pubQoS[x.tag], s.slot))
				}
			}
		}
		for _, c := range pubs {
			closeClient(c)
		}
		for _, s := range subs {
			closeClient(s.cur)
		}
		w.Settle()
		if leaks := w.Teardown(); len(leaks) > 0 {
			res.Violate("C15", "C15.leak", leaks[0], fmt.Sprintf("%d goroutines alive after teardown: %v", len(leaks), leaks))
		}
		res.Yields = rt.Yields()
		res.SimNanos = int64(core.SimNow())
	})
	if ptxt != "" {
		res.Violate("C15", "C15.panic", "bubble-e2e", ptxt)
	}
	if w != nil {
		res.Hash, res.Events, res.Steps = w.Log.Hash(), w.Log.N, w.Steps
		res.Sched = w.Log.Hash()
	}
	res.Count("e2e_runs", 1)
	if p.Seed%67 == 2 {
		res.Sample = "e2e " + p.Brief(12)
	}
	return res
}

func tagTopic(p *core.Plan, tag int) int {
	for _, it := range p.Items {
		if it.K == "pub" && it.D == tag {
			return it.B
		}
	}
	return 0
}

func matches(filter, topic string) bool {
	switch filter {
	case "o/#", "o/+":
		return true
	}
	return filter == topic
}

func judge(w *brk.World, subs map[int]*subscriber, pubQoS map[int]int, res *core.Result) {
	n := 0
	for _, s := range subs {
		last := map[string]int{}
		seen := map[int]int{}
		for _, cb := range s.cbs {
			if cb.tag < 0 {
				continue
			}
			seen[cb.tag]++
			if seen[cb.tag] > 1 {
				if pubQoS[cb.tag] == 2 && cb.qos == 2 {
					res.Violate("C15", "C15.e2e-exactly-once", "twice", fmt.Sprintf("subscriber s%d: QoS 2 message #%d was passed to the application %d times", s.slot, cb.tag, seen[cb.tag]))
				}
				continue
			}
			key := fmt.Sprintf("p%d/pq%d/dq%d", cb.tag/100000, pubQoS[cb.tag], cb.qos)
			if prev, ok := last[key]; ok && cb.tag%100000 <= prev%100000 {
				res.Violate("C15", "C15.e2e-order", fmt.Sprintf("pq%d-dq%d", pubQoS[cb.tag], cb.qos), fmt.Sprintf("subscriber s%d's application saw message %d of publisher %d (published QoS %d, delivered QoS %d) after message %d", s.slot, cb.tag%100000, cb.tag/100000, pubQoS[cb.tag], cb.qos, prev%100000))
			}
			last[key] = cb.tag
			n++
		}
	}
	res.Count("e2e_callbacks_ordered", int64(n))
	res.Nontrivial = n >= 2
	res.State = fmt.Sprintf("e2e/%d", n)
}
