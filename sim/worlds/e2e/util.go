package e2e

import "testing/synctest"

func brkWait() { synctest.Wait() }
