package brk

import (
	"encoding/hex"
	"fmt"
	"strings"
	"testing"
	"time"

	"github.com/256dpi/gomqtt/packet"

	"verif/sim/core"
	"verif/sim/rt"
)

// C14: no client can crash or stall the broker or disturb any other client.
// A hostile peer sends valid packets in arbitrary order with arbitrary ids,
// topics and filters, truncated/corrupt/oversized frames and connect storms
// while two well-behaved witnesses exchange numbered traffic; in other seed
// classes every backend call site fails in turn, or the backend/engine shut
// down while connections are being set up.

func init() {
	core.Register(&core.Check{ID: "C14", Expand: expandC14, Run: runC14})
}

func encHex(p packet.Generic) string {
	b := make([]byte, p.Len())
	n, err := p.Encode(b)
	if err != nil {
		return ""
	}
	return hex.EncodeToString(b[:n])
}

var weirdTopics = []string{"t/1", "t/2", "a", "a/+", "#", "+", "a/#/b", "\x00", "a/\x00", "t/\x00/x", "/", "//", "t/1/", "$SYS/x", strings.Repeat("t/", 3000), strings.Repeat("x", 65000)}

// hostilePacket returns the hex of one hostile packet and a short label.
func hostilePacket(r *core.Rand) (string, string) {
	id := packet.ID(r.Pick(1, 2, 3, 65535, 1000))
	switch r.Weighted([]int{10, 6, 4, 4, 3, 3, 2, 2, 8, 6, 2}) {
	case 0:
		pb := packet.NewPublish()
		pb.Message.Topic = weirdTopics[r.Intn(len(weirdTopics))]
		pb.Message.QOS = packet.QOS(r.Intn(3))
		pb.Message.Retain = r.Chance(1, 4)
		pb.Message.Payload = MsgPayload(700000+r.Intn(1000), r.Pick(0, 0, 10, 3000))
		if pb.Message.QOS > 0 {
			pb.ID = id
		}
		return encHex(pb), "publish " + fmt.Sprintf("%.12q", pb.Message.Topic)
	case 1:
		s := packet.NewSubscribe()
		s.ID = id
		for i := r.Range(1, 4); i > 0; i-- {
			s.Subscriptions = append(s.Subscriptions, packet.Subscription{Topic: weirdTopics[r.Intn(len(weirdTopics))], QOS: packet.QOS(r.Intn(3))})
		}
		return encHex(s), "subscribe"
	case 2:
		u := packet.NewUnsubscribe()
		u.ID = id
		u.Topics = []string{weirdTopics[r.Intn(len(weirdTopics))]}
		return encHex(u), "unsubscribe"
	case 3:
		a := packet.NewPubrel()
		a.ID = id
		return encHex(a), "pubrel"
	case 4:
		a := packet.NewPubrec()
		a.ID = id
		return encHex(a), "pubrec"
	case 5:
		if r.Chance(1, 2) {
			a := packet.NewPuback()
			a.ID = id
			return encHex(a), "puback"
		}
		a := packet.NewPubcomp()
		a.ID = id
		return encHex(a), "pubcomp"
	case 6:
		return encHex(packet.NewPingreq()), "pingreq"
	case 7:
		// server-only or repeated CONNECT
		switch r.Intn(4) {
		case 0:
			return encHex(packet.NewPingresp()), "pingresp"
		case 1:
			return encHex(packet.NewConnack()), "connack"
		case 2:
			c := packet.NewConnect()
			c.ClientID = "h"
			return encHex(c), "connect-again"
		}
		return encHex(packet.NewDisconnect()), "disconnect"
	case 8:
		// handcrafted: things the encoder refuses but the wire can carry
		raws := []string{
			"3003000078",                 // PUBLISH with a zero-length topic
			"32050000000178",             // QoS 1 PUBLISH, zero-length topic
			"3000",                       // PUBLISH with nothing
			"8205000100000 0",            // SUBSCRIBE zero-length filter (space removed below)
			"820600010001ff03",           // SUBSCRIBE invalid qos
			"a2040001ffff",               // UNSUBSCRIBE with a length running past the packet
			"6200",                       // PUBREL without id
			"62020000",                   // PUBREL id 0
			"3a0400017400",               // PUBLISH with dup+qos1 but no id room
			"36050001740001",             // PUBLISH qos 3
			"f000", "0000", "ffffffffff", // reserved types, overflowing varint
			"30ffffff7f", // PUBLISH declaring 256 MiB
			"c001aa",     // PINGREQ with payload
		}
		s := strings.ReplaceAll(raws[r.Intn(len(raws))], " ", "")
		return s, "raw " + s
	case 9:
		// mutation of a valid encoding
		base, _ := hostilePacket(core.NewRand(r.Uint64()))
		b, _ := hex.DecodeString(base)
		if len(b) == 0 {
			return "00", "mutated"
		}
		switch r.Intn(4) {
		case 0:
			b[r.Intn(len(b))] ^= byte(1 << uint(r.Intn(8)))
		case 1:
			b = b[:r.Intn(len(b))]
		case 2:
			if len(b) > 1 {
				b[1] = byte(r.Intn(256))
			}
		case 3:
			b = append(b, byte(r.Intn(256)), byte(r.Intn(256)))
		}
		if len(b) > 9000 {
			b = b[:9000]
		}
		return hex.EncodeToString(b), "mutated"
	default:
		// above the read limit (8 KiB in this world)
		pb := packet.NewPublish()
		pb.Message.Topic = "t/big"
		pb.Message.Payload = make([]byte, 9000)
		return encHex(pb), "oversized"
	}
}

func expandC14(t *testing.T, seed uint64, tier string) []*core.Plan {
	r := core.NewRand(core.Derive(seed, "plan"))
	p := &core.Plan{Check: "C14", Seed: seed}
	class := int(seed % 4)
	p.SetKnob("class", class)
	p.SetKnob("chunk", r.Pick(0, 0, -1, 1, 5))
	p.SetKnob("gate", r.Pick(0, 0, 1))
	p.Yield = r.Pick(0, 0, 0, 8)
	tag := 0
	wpub := func() core.Item {
		tag++
		return core.Item{K: "wpub", P: 1 + r.Intn(2), A: r.Intn(3), S: r.PickS("t/1", "t/2", "t/1"), D: tag}
	}
	n := r.Range(4, 24)
	if class == 3 && r.Chance(1, 2) {
		// slow consumer: a hostile clean-session subscriber stops reading, its
		// socket buffer and session queue are small; witness traffic fills the
		// queue until a publish has to wait for room; then the hostile client
		// goes away and everything must recover
		p.SetKnob("slow", 1)
		p.SetKnob("queue", r.Pick(2, 4, 8))
		p.Items = append(p.Items, core.Item{K: "hslow", P: 1, B: r.Intn(2)})
		k := r.Range(6, 30)
		for i := 0; i < k; i++ {
			it := wpub()
			it.A = r.Pick(0, 0, 1)
			p.Items = append(p.Items, it)
		}
		p.Items = append(p.Items, core.Item{K: "hgone", P: 1, A: r.Intn(3)})
		for i := 0; i < 4; i++ {
			p.Items = append(p.Items, wpub())
		}
		return []*core.Plan{p}
	}
	if class == 3 && r.Chance(1, 3) {
		// a publisher that never reads: it sends QoS 1 publishes and ignores the
		// acknowledgements behind a tiny socket buffer; the broker runs with its
		// default client settings; the witnesses must not notice
		p.SetKnob("slow", 2)
		p.SetKnob("defaults", 1)
		p.Items = append(p.Items, core.Item{K: "hdeaf", P: 1, A: r.Range(2, 6), B: r.Pick(0, 63, r.Intn(64))})
		for i := 0; i < r.Range(4, 14); i++ {
			p.Items = append(p.Items, wpub())
		}
		p.Items = append(p.Items, core.Item{K: "hgone", P: 1, A: r.Intn(2)})
		for i := 0; i < 3; i++ {
			p.Items = append(p.Items, wpub())
		}
		return []*core.Plan{p}
	}
	for i := 0; i < n; i++ {
		switch {
		case class == 2 && i == n/2:
			p.Items = append(p.Items, core.Item{K: r.PickS("bclose", "bclose", "eclose"), A: r.Intn(2)})
		case r.Chance(2, 5):
			p.Items = append(p.Items, wpub())
		case r.Chance(1, 6):
			// a (re)connecting hostile client, sometimes with a hostile will
			it := core.Item{K: "hconnect", P: 1 + r.Intn(2), A: r.Intn(2), B: r.Pick(0, 0, 1, 2)}
			p.Items = append(p.Items, it)
		case r.Chance(1, 12):
			p.Items = append(p.Items, core.Item{K: "adv", A: r.Pick(1, 50, 2000, 16000)})
		default:
			h, label := hostilePacket(r)
			p.Items = append(p.Items, core.Item{K: "h", P: 1 + r.Intn(2), S: h, T: label})
		}
	}
	if class != 1 {
		return []*core.Plan{p}
	}
	// class 1: every backend call site fails in turn
	base := runC14(t, p)
	out := []*core.Plan{p}
	sites := []string{"Authenticate", "Setup", "Restore", "Subscribe", "Unsubscribe", "Publish", "Dequeue", "Terminate"}
	for si, site := range sites {
		nc := int(base.Counters["calls_"+site])
		ks := []int{}
		for k := 1; k <= nc; k++ {
			ks = append(ks, k)
		}
		if tier != "thorough" && len(ks) > 3 {
			for i := len(ks) - 1; i > 0; i-- {
				j := r.Intn(i + 1)
				ks[i], ks[j] = ks[j], ks[i]
			}
			ks = ks[:3]
		}
		for _, k := range ks {
			q := clonePlan(p)
			q.SetKnob("failsite", si+1)
			q.SetKnob("failk", k)
			out = append(out, q)
		}
	}
	return out
}

func runC14(t *testing.T, p *core.Plan) *core.Result {
	res := &core.Result{Check: "C14", Seed: p.Seed}
	cfg := DefaultConfig()
	cfg.Chunk = p.Knob("chunk", 0)
	cfg.GateBackend = p.Knob("gate", 0) == 1
	cfg.ReadLimit = 8192
	cfg.KillTimeout = time.Second
	cfg.TokenTimeout = 2 * time.Second
	if q := p.Knob("queue", 0); q > 0 {
		cfg.QueueSize = q
	}
	class := p.Knob("class", 0)
	slow := p.Knob("slow", 0) == 1
	if p.Knob("defaults", 0) == 1 {
		// leave the client knobs at zero: broker.Client applies its defaults
		cfg.ParPublishes, cfg.ParSubscribes, cfg.Inflight, cfg.TokenTimeout, cfg.MaxKeepAlive = 0, 0, 0, 0, 0
	}
	sites := []string{"", "Authenticate", "Setup", "Restore", "Subscribe", "Unsubscribe", "Publish", "Dequeue", "Terminate"}
	var w *World
	ptxt := core.Bubble(t, p.Seed, p.Yield, func() {
		w = NewWorld(cfg, p.Seed, res)
		// witnesses
		wit := []*Peer{nil}
		for i := 1; i <= 2; i++ {
			pr := w.NewPeer(fmt.Sprintf("w%d", i))
			c := packet.NewConnect()
			c.ClientID, c.CleanSession, c.KeepAlive = pr.CID, true, 0
			pr.Send(c)
			s := packet.NewSubscribe()
			s.ID = pr.NextID()
			switch {
			case slow && i == 1:
				// tiny queues: a witness must not fill its own queue (MemoryBackend
				// answers that with ErrQueueFull by design), so nobody receives its own messages
				s.Subscriptions = []packet.Subscription{{Topic: "u/#", QOS: 1}}
			case i == 1:
				s.Subscriptions = []packet.Subscription{{Topic: "#", QOS: 1}}
			default:
				s.Subscriptions = []packet.Subscription{{Topic: "t/#", QOS: 2}}
			}
			pr.Send(s)
			wit = append(wit, pr)
		}
		w.Settle()
		if fs := p.Knob("failsite", 0); fs > 0 {
			w.BkFail[sites[fs]] = p.Knob("failk", 0)
			// the base run's call indices include the witness set-up calls
		}
		hostile := map[int]*Peer{}
		var hostiles []*Peer
		shutdown := false
		type wmsg struct {
			tag, qos int
			topic    string
			by       int
		}
		var wmsgs []wmsg
		for _, it := range p.Items {
			switch it.K {
			case "hconnect":
				if old := hostile[it.P]; old != nil && !old.EOF && it.A == 1 {
					old.Drop()
				}
				pr := w.NewPeer(fmt.Sprintf("h%d", it.P))
				pr.AckMode = it.P % 2 * 2 // one hostile slot never acknowledges
				hostile[it.P] = pr
				hostiles = append(hostiles, pr)
				switch it.B {
				case 0, 1:
					c := packet.NewConnect()
					c.ClientID, c.CleanSession, c.KeepAlive = pr.CID, it.A == 1, 10
					if it.B == 1 {
						c.Will = &packet.Message{Topic: "t/1", Payload: MsgPayload(800000+pr.Idx, 0), QOS: 1}
					}
					pr.Send(c)
				default:
					// CONNECT with a zero-length will topic (admitted by the decoder)
					raw, _ := hex.DecodeString("101300044d5154540406000a00026878000000017a")
					pr.SendRaw(raw, "connect with zero-length will topic")
				}
			case "hslow":
				pr := w.NewPeer("slow")
				pr.AckMode = 2
				pr.Link.B2A.Cap = 96
				hostile[it.P] = pr
				hostiles = append(hostiles, pr)
				c := packet.NewConnect()
				// a temporary or (B=1) a persistent session: MemoryBackend.Publish
				// waits for room in their queues on different code paths
				c.ClientID, c.CleanSession, c.KeepAlive = "slow", it.B == 0, 10
				pr.Send(c)
				sp := packet.NewSubscribe()
				sp.ID = 1
				sp.Subscriptions = []packet.Subscription{{Topic: "t/#", QOS: 0}}
				pr.Send(sp)
				w.Settle()
				pr.Stalled = true // from now on it reads nothing
				res.Count("slow_consumers", 1)
			case "hdeaf":
				pr := w.NewPeer("deaf")
				pr.AckMode = 2
				pr.Link.B2A.Cap = 3 // less than one CONNACK: nothing the broker writes gets through any more
				hostile[it.P] = pr
				hostiles = append(hostiles, pr)
				c := packet.NewConnect()
				c.ClientID, c.CleanSession, c.KeepAlive = "deaf", true, 0
				pr.Send(c)
				w.Settle()
				pr.Stalled = true
				for k := 0; k < it.A; k++ {
					pb := packet.NewPublish()
					pb.ID = pr.NextID()
					pb.Message = packet.Message{Topic: "v/x", QOS: 1, Payload: MsgPayload(600000+k, 0)}
					pr.Send(pb)
					if it.B&(1<<uint(k)) != 0 {
						// let the write-delay flush run into the full socket buffer
						// before the next acknowledgement is due
						w.Settle()
					}
				}
				w.Settle()
				res.Count("deaf_publishers", 1)
			case "hgone":
				if pr := hostile[it.P]; pr != nil {
					stuck := 0
					for _, st := range core.Stacks() {
						if strings.Contains(st, "MemoryBackend).Publish") {
							stuck++
						}
					}
					if stuck > 0 {
						res.Count("publishes_waiting_for_slow_consumer", 1)
					}
					switch it.A {
					case 0:
						pr.Drop()
					case 1:
						pr.CloseClean()
					default:
						w.Advance(20 * time.Second) // its keep-alive (10 s) expires
						pr.Drop()
					}
					w.Settle()
				}
			case "h":
				pr := hostile[it.P]
				if pr == nil {
					pr = w.NewPeer(fmt.Sprintf("h%d", it.P))
					hostile[it.P] = pr
					hostiles = append(hostiles, pr)
				}
				b, _ := hex.DecodeString(it.S)
				pr.SendRaw(b, it.T)
			case "wpub":
				pr := wit[it.P]
				if pr.EOF {
					break
				}
				topic := it.S
				if slow && it.P == 2 {
					topic = "u" + topic[1:] // w2 publishes towards w1 only
				}
				pb := packet.NewPublish()
				size := 0
				if slow {
					size = 900 // fills the slow consumer's 4 KiB write buffer after a few messages
				}
				pb.Message = packet.Message{Topic: topic, QOS: packet.QOS(it.A), Payload: MsgPayload(it.D, size)}
				if it.A > 0 {
					pb.ID = pr.NextID()
				}
				pr.Send(pb)
				wmsgs = append(wmsgs, wmsg{it.D, it.A, topic, it.P})
			case "adv":
				w.Advance(time.Duration(it.A) * time.Millisecond)
			case "bclose":
				shutdown = true
				go w.Backend.Close(2 * time.Second)
			case "eclose":
				shutdown = true
				if it.A == 1 {
					// a connection arrives at the very moment of the shutdown
					pr := w.NewPeer("late")
					hostiles = append(hostiles, pr)
					c := packet.NewConnect()
					c.ClientID, c.CleanSession = "late", true
					pr.Send(c)
					res.Count("connects_racing_engine_close", 1)
				}
				_ = w.Server.Close()
				go w.Engine.Close()
			}
			if !slow && (class == 2 || w.Sched.Chance(1, 2)) {
				w.Nudge(1 + w.Sched.Intn(3))
			} else {
				w.Settle()
			}
		}
		w.Settle()
		w.Advance(3 * time.Second) // token and kill timeouts
		w.Settle()

		// ---- verdicts that need the live system
		faultOn := map[int]bool{}
		for _, e := range w.Hist {
			if e.K == EvFault && e.Call != "" {
				faultOn[e.C] = true
			}
		}
		for i := 1; i <= 2; i++ {
			pr := wit[i]
			if pr.EOF && !shutdown && !faultOn[pr.Idx] {
				why := ""
				for _, e := range w.Hist {
					if e.C == pr.Idx && e.K == EvLog && e.Err != nil && why == "" {
						why = e.Call + ": " + e.Err.Error()
					}
				}
				res.Violate("C14", "C14.witness-closed", why, fmt.Sprintf("the connection of witness w%d was closed although it did nothing wrong (%s)", i, why))
			}
		}
		if !shutdown && len(faultOn) == 0 {
			// witness traffic is delivered: w1 sees everything on t/#, w2 too
			for _, m := range wmsgs {
				for i := 1; i <= 2; i++ {
					pr := wit[i]
					if pr.EOF || wit[m.by].EOF {
						continue
					}
					n := 0
					for _, e := range pr.Recv {
						if q, ok := e.P.(*packet.Publish); ok && TagOf(q.Message.Payload) == m.tag && !q.Dup {
							n++
						}
					}
					want := 1
					if slow && i == m.by {
						want = 0 // in the slow-consumer class nobody subscribes to its own topics
					}
					if n != want {
						res.Violate("C14", "C14.witness-delivery", fmt.Sprintf("got%d", n), fmt.Sprintf("witness w%d received message #%d (published by w%d on %s, QoS %d) %d times, expected %d", i, m.tag, m.by, m.topic, m.qos, n, want))
					}
				}
			}
		}
		// counters for the fault enumeration
		for _, c := range BackendCalls(w.Hist) {
			res.Count("calls_"+c.Call, 1)
		}
		res.Count("calls_Dequeue", int64(w.bkN["Dequeue"]))
		clients := w.Probe.allClients()
		leaks := w.Teardown()
		if len(leaks) > 0 {
			res.Violate("C14", "C14.leak", leaks[0], fmt.Sprintf("%d goroutines still alive one virtual hour after everything was closed: %v", len(leaks), leaks))
		}
		// every connection released its resources
		setups, terms := map[int]int{}, map[int]int{}
		for _, e := range w.Hist {
			if e.K == EvBkEnter && e.Call == "Setup" {
				setups[e.C]++
			}
			if e.K == EvBkEnter && e.Call == "Terminate" {
				terms[e.C]++
			}
		}
		for c, n := range setups {
			if terms[c] != n {
				res.Violate("C14", "C14.terminate-pairing", fmt.Sprintf("setup%d-terminate%d", n, terms[c]), fmt.Sprintf("connection %d: Setup was called %d times, Terminate %d times after the connection ended", c, n, terms[c]))
			}
		}
		for c, n := range terms {
			if setups[c] == 0 {
				res.Violate("C14", "C14.terminate-pairing", "terminate-without-setup", fmt.Sprintf("connection %d: Terminate called %d times without Setup", c, n))
			}
		}
		for i, cl := range clients {
			select {
			case <-cl.Closed():
			default:
				res.Violate("C14", "C14.closed-signal", "not-fired", fmt.Sprintf("the closed signal of connection %d never fired although its connection ended", i))
			}
		}
		res.Count("hostile_connections", int64(len(hostiles)))
		res.Yields = rt.Yields()
		res.SimNanos = int64(core.SimNow())
	})
	if ptxt != "" {
		res.Violate("C14", "C14.deadlock", "bubble", ptxt)
	}
	if w != nil {
		res.Hash, res.Events, res.Steps = w.Log.Hash(), w.Log.N, w.Steps
		res.Sched = w.Log.Hash()
		n := 0
		for _, e := range w.Hist {
			if e.K == EvLog && e.Err != nil {
				n++
			}
		}
		res.Count("connections_killed_by_broker", int64(n))
	}
	res.Nontrivial = true
	res.State = fmt.Sprintf("class%d", class)
	if p.Seed%59 == 0 && p.Knob("failsite", 0) == 0 {
		res.Sample = p.Brief(10)
	}
	return res
}
