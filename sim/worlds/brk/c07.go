package brk

import (
	"fmt"
	"testing"

	"github.com/256dpi/gomqtt/packet"

	"verif/sim/core"
	"verif/sim/rt"
)

// C07: the broker acknowledges a publisher only after acceptance; QoS 2 is
// forwarded exactly once; every PUBREL is answered.
//
// A protocol-legal scripted publisher with a persistent session runs a script
// over {new QoS 1/2 publish, release pending PUBRELs, reconnect+retransmit,
// PUBREL for an unknown id}; the connection is cut before/after every single
// packet in either direction (positions enumerated from a fault-free base run),
// the backend acknowledges synchronously, late or never.

// ExpandC07 / RunC07: the check is registered by the e2e package, which adds an
// end-to-end seed class (real clients against the real broker) to it.
func ExpandC07(t *testing.T, seed uint64, tier string) []*core.Plan { return expandC07(t, seed, tier) }

// RunC07 runs one plan of the scripted-peer classes.
func RunC07(t *testing.T, p *core.Plan) *core.Result { return runC07(t, p) }

type pubFlow struct {
	id     packet.ID
	tag    int
	qos    int
	topic  string
	gotRec bool
	done   bool
}

type publisher struct {
	w      *World
	cid    string
	cur    *Peer
	conns  []*Peer
	flows  []*pubFlow
	seen   map[*Peer]int
	defer_ bool
	// connections the publisher itself gave up while the system was quiescent:
	// whatever the broker owed on them at that moment it will never send
	quietDrop map[*Peer]bool
	// half-open connections: the publisher is gone, the broker has not noticed
	abandoned map[*Peer]bool
}

func (pb *publisher) connect(clean bool) {
	p := pb.w.NewPeer(pb.cid)
	if pb.defer_ {
		p.AckMode = 1
	}
	pb.cur = p
	pb.conns = append(pb.conns, p)
	c := packet.NewConnect()
	c.ClientID = pb.cid
	c.CleanSession = clean
	p.Send(c)
}

// absorb updates the flows from what the current connections received.
func (pb *publisher) absorb() {
	for _, p := range pb.conns {
		for _, e := range p.Recv[pb.seen[p]:] {
			switch q := e.P.(type) {
			case *packet.Puback:
				if f := pb.open(q.ID); f != nil && f.qos == 1 {
					f.done = true
				}
			case *packet.Pubrec:
				if f := pb.open(q.ID); f != nil && f.qos == 2 {
					f.gotRec = true
				}
			case *packet.Pubcomp:
				if f := pb.open(q.ID); f != nil && f.qos == 2 && f.gotRec {
					f.done = true
				}
			}
		}
		pb.seen[p] = len(p.Recv)
	}
}

func (pb *publisher) open(id packet.ID) *pubFlow {
	for _, f := range pb.flows {
		if f.id == id && !f.done {
			return f
		}
	}
	return nil
}

func (pb *publisher) publish(topic string, qos, tag int) bool {
	var id packet.ID
	for c := packet.ID(1); c <= 3; c++ {
		if pb.open(c) == nil {
			id = c
			break
		}
	}
	if id == 0 {
		return false
	}
	f := &pubFlow{id: id, tag: tag, qos: qos, topic: topic}
	pb.flows = append(pb.flows, f)
	pb.sendPublish(f, false)
	return true
}

func (pb *publisher) sendPublish(f *pubFlow, dup bool) {
	p := packet.NewPublish()
	p.ID = f.id
	p.Dup = dup
	p.Message = packet.Message{Topic: f.topic, QOS: packet.QOS(f.qos), Payload: MsgPayload(f.tag, 0)}
	pb.cur.Send(p)
}

// resume reconnects with the same session and retransmits what MQTT lets a
// sender retransmit: PUBLISH (DUP) while no PUBREC was seen, PUBREL afterwards.
func (pb *publisher) resume() {
	if !pb.cur.EOF {
		// both callers have just run the system to quiescence
		if pb.quietDrop == nil {
			pb.quietDrop = map[*Peer]bool{}
		}
		pb.quietDrop[pb.cur] = true
		pb.cur.Drop()
	}
	pb.reconnect()
}

// takeover: the publisher's connection is half-open (the publisher has given
// it up, nothing tells the broker); it connects again with the same client id
// while the old broker-side client may still be in the middle of something.
func (pb *publisher) takeover() {
	if !pb.cur.EOF {
		if pb.abandoned == nil {
			pb.abandoned = map[*Peer]bool{}
		}
		pb.abandoned[pb.cur] = true
		pb.cur.Stalled = true
		pb.cur.AckMode = 2
	}
	pb.reconnect()
}

func (pb *publisher) reconnect() {
	pb.cur.Pending = nil
	pb.connect(false)
	for _, f := range pb.flows {
		if f.done {
			continue
		}
		if f.qos == 2 && f.gotRec {
			r := packet.NewPubrel()
			r.ID = f.id
			pb.cur.Send(r)
		} else {
			pb.sendPublish(f, true)
		}
	}
}

func (pb *publisher) release() {
	pend := pb.cur.Pending
	pb.cur.Pending = nil
	for _, x := range pend {
		pb.cur.Send(x)
	}
}

func expandC07(t *testing.T, seed uint64, tier string) []*core.Plan {
	r := core.NewRand(core.Derive(seed, "plan"))
	p := &core.Plan{Check: "C07", Seed: seed}
	p.SetKnob("ackmode", r.Pick(0, 0, 0, 1, 3, 3, 2))
	p.SetKnob("defer", r.Pick(0, 0, 1))
	p.SetKnob("chunk", r.Pick(0, 0, -1, 1))
	p.SetKnob("parpub", r.Pick(10, 10, 2, 1))
	if seed%7 == 0 {
		// token stream: 5 x ParallelPublishes publishes must all complete
		pp := p.Knob("parpub", 10)
		p.SetKnob("ackmode", r.Pick(0, 1, 3))
		p.SetKnob("defer", 0)
		for i := 0; i < 5*pp; i++ {
			p.Items = append(p.Items, core.Item{K: "pub", A: r.Pick(1, 2), S: Topics[r.Intn(len(Topics))], D: i + 1})
			if r.Chance(1, 3) {
				p.Items = append(p.Items, core.Item{K: "settle"})
			}
		}
		p.SetKnob("stream", 1)
		return []*core.Plan{p}
	}
	n := r.Range(1, 10)
	tag := 0
	for i := 0; i < n; i++ {
		switch r.Weighted([]int{8, 3, 2, 1, 2}) {
		case 0:
			tag++
			p.Items = append(p.Items, core.Item{K: "pub", A: r.Pick(1, 2, 2), S: Topics[r.Intn(len(Topics))], D: tag})
		case 1:
			p.Items = append(p.Items, core.Item{K: "rel"})
		case 2:
			p.Items = append(p.Items, core.Item{K: "reconnect"})
		case 3:
			p.Items = append(p.Items, core.Item{K: "pubrel-unknown", A: r.Pick(7, 9, 65535)})
		case 4:
			p.Items = append(p.Items, core.Item{K: "settle"})
		}
	}
	if seed%17 == 11 {
		// self-subscribed publisher with a one-entry queue: it publishes to a
		// topic it has subscribed to and does not acknowledge what comes back, so
		// its own queue fills and MemoryBackend turns the next publish down
		// (ErrQueueFull): a message the backend refuses is not acknowledged
		p.Items = nil
		p.SetKnob("selfsub", 1)
		p.SetKnob("ackmode", 0)
		p.SetKnob("defer", 0)
		p.SetKnob("pubq", r.Pick(1, 1, 2))
		return []*core.Plan{p}
	}
	if seed%13 == 8 {
		// deaf resume: a publisher that has two QoS 2 handshakes open comes back
		// on a new connection, fills the broker's acknowledgement queue with
		// requests while it reads nothing, then releases the old handshakes:
		// every PUBREL must still get its PUBCOMP once it reads again
		p.Items = nil
		p.SetKnob("deafresume", 1)
		p.SetKnob("ackmode", r.Pick(0, 0, 1))
		p.SetKnob("defer", 1)
		p.SetKnob("parpub", r.Pick(1, 2, 3))
		p.SetKnob("parsub", r.Pick(1, 2))
		p.SetKnob("open", r.Pick(2, 3))
		return []*core.Plan{p}
	}
	if seed%5 == 3 {
		// half-open takeover: backend calls are held at the simulator's gate and
		// released in seeded order while the publisher comes back on a second
		// connection; no cuts in this class
		p.SetKnob("gate", 1)
		p.SetKnob("ackmode", r.Pick(0, 0, 1))
		k := r.Intn(len(p.Items) + 1)
		items := append([]core.Item{}, p.Items[:k]...)
		items = append(items, core.Item{K: "takeover", A: r.Range(0, 6), B: r.Range(2, 12)})
		p.Items = append(items, p.Items[k:]...)
		return []*core.Plan{p}
	}
	out := []*core.Plan{p}
	if p.Knob("ackmode", 0) == 2 {
		return out
	}
	// fault enumeration over the first publisher connection
	base := runC07(t, p)
	ns, nr := int(base.Counters["conn1_sends"]), int(base.Counters["conn1_recvs"])
	add := func(mode, k int) {
		q := clonePlan(p)
		q.SetKnob("fmode", mode)
		q.SetKnob("fk", k)
		out = append(out, q)
	}
	for k := 1; k <= ns; k++ {
		add(1, k)
		add(2, k)
	}
	for k := 1; k <= nr; k++ {
		add(3, k)
		add(4, k)
		add(5, k)
	}
	if tier == "thorough" && ns+nr <= 14 {
		// pairs: a second cut on the publisher's second connection
		for k := 1; k <= ns; k++ {
			for k2 := 1; k2 <= 4; k2++ {
				q := clonePlan(p)
				q.SetKnob("fmode", 1+r.Intn(2))
				q.SetKnob("fk", k)
				q.SetKnob("fmode2", 1+r.Intn(2))
				q.SetKnob("fk2", k2)
				out = append(out, q)
			}
		}
	}
	return out
}

func armFault(p *Peer, mode, k int) {
	switch mode {
	case 1:
		p.FC.failSendN, p.FC.failSendPost = k, false
	case 2:
		p.FC.failSendN, p.FC.failSendPost = k, true
	case 3:
		p.DropSendN = k
	case 4:
		p.CutAfterN = k
	case 5:
		p.FC.failRecvN = k
	}
}

func runC07(t *testing.T, p *core.Plan) *core.Result {
	res := &core.Result{Check: "C07", Seed: p.Seed}
	cfg := DefaultConfig()
	cfg.Chunk = p.Knob("chunk", 0)
	cfg.AckMode = p.Knob("ackmode", 0)
	cfg.ParPublishes = p.Knob("parpub", 10)
	if ps := p.Knob("parsub", 0); ps > 0 {
		cfg.ParSubscribes = ps
	}
	cfg.GateBackend = p.Knob("gate", 0) == 1
	if p.Knob("selfsub", 0) == 1 {
		cfg.QueueSize, cfg.Inflight = 1, 1
	}
	var w *World
	ptxt := core.Bubble(t, p.Seed, p.Yield, func() {
		w = NewWorld(cfg, p.Seed, res)
		// observer: clean session, subscribed to everything at QoS 2, never disturbed
		obs := w.NewPeer("obs")
		oc := packet.NewConnect()
		oc.ClientID, oc.CleanSession = "obs", true
		obs.Send(oc)
		os := packet.NewSubscribe()
		os.ID = 1
		os.Subscriptions = []packet.Subscription{{Topic: "#", QOS: 2}}
		obs.Send(os)
		w.Settle()
		pb := &publisher{w: w, cid: "pub", seen: map[*Peer]int{}, defer_: p.Knob("defer", 0) == 1}
		pb.connect(false)
		armFault(pb.cur, p.Knob("fmode", 0), p.Knob("fk", 0))
		first := pb.cur
		if p.Knob("selfsub", 0) == 1 {
			cur := pb.cur
			cur.AckMode = 2 // it answers nothing that is delivered to it
			sp := packet.NewSubscribe()
			sp.ID = 90
			sp.Subscriptions = []packet.Subscription{{Topic: "self/#", QOS: 1}}
			cur.Send(sp)
			w.Settle()
			for i := 1; i <= 5 && !cur.EOF; i++ {
				f := &pubFlow{id: packet.ID(i), tag: i, qos: p.Knob("pubq", 1), topic: "self/t"}
				pb.flows = append(pb.flows, f)
				pb.sendPublish(f, false)
				w.Settle()
				if f.qos == 2 {
					// release the handshake at once
					r := packet.NewPubrel()
					r.ID = f.id
					cur.Send(r)
					w.Settle()
				}
			}
			res.Count("self_subscribed_publishers", 1)
			// every PUBACK/PUBCOMP the publisher saw must belong to a Publish call
			// that the backend did not turn down
			refused := map[int]bool{}
			for _, e := range w.Hist {
				if e.K == EvBkReturn && e.Call == "Publish" && e.M != nil && e.Err != nil {
					refused[TagOf(e.M.Payload)] = true
					res.Count("publishes_refused_by_backend", 1)
				}
			}
			for _, e := range w.Hist {
				if e.K != EvConnSend || e.C != cur.Idx {
					continue
				}
				var id packet.ID
				switch q := e.P.(type) {
				case *packet.Puback:
					id = q.ID
				case *packet.Pubcomp:
					id = q.ID
				default:
					continue
				}
				if refused[int(id)] {
					res.Violate("C07", "C07.ack-order", "acked-although-refused", fmt.Sprintf("the broker wrote %s for message #%d although the backend had refused that message (queue full)", pktBrief(e.P), id))
				}
			}
			if leaks := w.Teardown(); len(leaks) > 0 {
				res.Violate("C07", "C07.leak", leaks[0], fmt.Sprintf("%d goroutines still alive after teardown: %v", len(leaks), leaks))
			}
			res.Yields = rt.Yields()
			res.SimNanos = int64(core.SimNow())
			res.Nontrivial = true
			return
		}
		if p.Knob("deafresume", 0) == 1 {
			// 1. open handshakes: PUBLISH + PUBREC, the PUBRELs are withheld
			nOpen := p.Knob("open", 2)
			for i := 1; i <= nOpen; i++ {
				pb.publish(Topics[i%len(Topics)], 2, i)
			}
			w.Settle()
			pb.absorb()
			// 2. the connection is lost; a new one is set up (CONNECT only)
			pb.cur.Drop()
			w.Settle()
			pb.cur.Pending = nil
			pb.connect(false)
			w.Settle()
			cur := pb.cur
			// 3. from now on the publisher reads nothing (tiny socket buffer)
			cur.Link.B2A.Cap = 2 // less than one acknowledgement
			cur.Stalled = true
			// 4. one request whose acknowledgement is buffered; the delayed flush
			// then runs into the full socket buffer and stays there
			tag := 100
			{
				f := &pubFlow{id: 19, tag: tag, qos: 1, topic: Topics[0]}
				pb.flows = append(pb.flows, f)
				pb.sendPublish(f, false)
				w.Settle()
			}
			// requests that take every token: the acker gets stuck behind the
			// flush with the first acknowledgement, the others fill the queue
			for i := 0; i < cfg.ParPublishes; i++ {
				tag++
				f := &pubFlow{id: packet.ID(20 + i), tag: tag, qos: 1, topic: Topics[0]}
				pb.flows = append(pb.flows, f)
				pb.sendPublish(f, false)
			}
			for i := 0; i < cfg.ParSubscribes; i++ {
				sp := packet.NewSubscribe()
				sp.ID = packet.ID(40 + i)
				sp.Subscriptions = []packet.Subscription{{Topic: "zz/x", QOS: 0}}
				cur.Send(sp)
			}
			w.Settle()
			// 5. the old handshakes are released
			for _, f := range pb.flows {
				if f.qos == 2 && f.gotRec && !f.done {
					r := packet.NewPubrel()
					r.ID = f.id
					cur.Send(r)
				}
			}
			w.Settle()
			// 6. the publisher reads again
			cur.Stalled = false
			w.Settle()
			pb.absorb()
			res.Count("deaf_resumes", 1)
		}
		armed2 := false
		step := func() {
			w.Settle()
			pb.absorb()
			if pb.cur.EOF {
				pb.resume()
				if !armed2 && len(pb.conns) == 2 {
					armFault(pb.cur, p.Knob("fmode2", 0), p.Knob("fk2", 0))
					armed2 = true
				}
				w.Settle()
				pb.absorb()
			}
		}
		for _, it := range p.Items {
			switch it.K {
			case "pub":
				pb.publish(it.S, it.A, it.D)
			case "rel":
				pb.release()
			case "reconnect":
				step()
				pb.resume()
			case "pubrel-unknown":
				if pb.open(packet.ID(it.A)) == nil {
					r := packet.NewPubrel()
					r.ID = packet.ID(it.A)
					pb.cur.Send(r)
				}
			case "takeover":
				w.Nudge(it.A)
				pb.absorb()
				pb.takeover()
				w.Nudge(it.B)
				res.Count("half_open_takeovers", 1)
				step()
			case "settle":
				step()
			}
			if cfg.AckMode != 2 && pb.cur.EOF {
				step()
			}
		}
		// completion: a legal sender finishes every flow (bounded rounds)
		if cfg.AckMode != 2 {
			for round := 0; round < 8; round++ {
				step()
				pb.release()
				step()
				open := 0
				for _, f := range pb.flows {
					if !f.done {
						open++
					}
				}
				if open == 0 {
					break
				}
				if round >= 2 {
					pb.resume() // retransmit once more on a fresh connection
				}
			}
			w.Settle()
			pb.absorb()
		} else {
			w.Settle()
			pb.absorb()
		}
		res.Count("conn1_sends", int64(first.FC.sends))
		res.Count("conn1_recvs", int64(len(first.Sent)))
		judgeC07(w, pb, obs, p, res)
		if leaks := w.Teardown(); len(leaks) > 0 {
			res.Violate("C07", "C07.leak", leaks[0], fmt.Sprintf("%d goroutines still alive after teardown: %v", len(leaks), leaks))
		}
		res.Yields = rt.Yields()
		res.SimNanos = int64(core.SimNow())
	})
	if ptxt != "" {
		res.Violate("C07", "C07.panic", "bubble", ptxt)
	}
	if w != nil {
		res.Hash, res.Events, res.Steps = w.Log.Hash(), w.Log.N, w.Steps
		res.Sched = w.Log.Hash()
	}
	if p.Seed%41 == 0 && p.Knob("fmode", 0) <= 1 {
		res.Sample = p.Brief(12)
	}
	return res
}

func judgeC07(w *World, pb *publisher, obs *Peer, p *core.Plan, res *core.Result) {
	isPub := map[int]bool{}
	for _, c := range pb.conns {
		isPub[c.Idx] = true
	}
	ackMode := w.Cfg.AckMode
	// index the history per publisher connection
	type key struct {
		c   int
		tag int
	}
	ackRel := map[key][]uint64{}
	accepted := map[int]int{} // tag -> successful Backend.Publish calls
	entered := map[int]int{}
	handedAfterAcceptance := map[int]int{}
	for _, e := range w.Hist {
		if !isPub[e.C] {
			continue
		}
		switch {
		case e.K == EvAckRel && e.Call == "Publish" && e.M != nil:
			k := key{e.C, TagOf(e.M.Payload)}
			ackRel[k] = append(ackRel[k], e.Seq)
			// acceptance = the backend invoked the acknowledgement (the probe may
			// withhold or delay it; MemoryBackend's fan-out before that moment is
			// then not an acceptance)
			accepted[TagOf(e.M.Payload)]++
		case e.K == EvBkEnter && e.Call == "Publish" && e.M != nil:
			tag := TagOf(e.M.Payload)
			entered[tag]++
			if accepted[tag] > 0 {
				handedAfterAcceptance[tag]++
			} else if entered[tag] > 1 {
				// the earlier hand-over has not been accepted (yet, or ever): the
				// broker cannot tell "late" from "never" and retries - legitimate
				res.Count("rehandover_before_acceptance", 1)
			}
		}
	}
	released := func(c, tag int, after, before uint64) bool {
		for _, s := range ackRel[key{c, tag}] {
			if s > after && s < before {
				return true
			}
		}
		return false
	}
	// walk each connection's events in order
	for _, c := range pb.conns {
		lastQ1 := map[packet.ID]int{} // id -> tag of the latest QoS 1 PUBLISH received
		lastQ1At := map[packet.ID]uint64{}
		lastRel := map[packet.ID]uint64{} // id -> seq of the latest PUBREL received
		relAnswered := map[uint64]bool{}
		var rels []struct {
			id  packet.ID
			seq uint64
		}
		pubAfterRel := map[packet.ID]int{} // tag handed to the backend after the latest PUBREL
		pubAfterRelOK := map[packet.ID]bool{}
		for _, e := range w.Hist {
			if e.C != c.Idx {
				continue
			}
			switch e.K {
			case EvConnRecv:
				switch q := e.P.(type) {
				case *packet.Publish:
					if q.Message.QOS == 1 {
						lastQ1[q.ID] = TagOf(q.Message.Payload)
						lastQ1At[q.ID] = e.Seq
					}
				case *packet.Pubrel:
					lastRel[q.ID] = e.Seq
					rels = append(rels, struct {
						id  packet.ID
						seq uint64
					}{q.ID, e.Seq})
					delete(pubAfterRel, q.ID)
					delete(pubAfterRelOK, q.ID)
				}
			case EvBkEnter:
				if e.Call == "Publish" && e.M != nil && e.M.QOS == 2 {
					// attribute to the most recent PUBREL of this connection
					var best packet.ID
					var bs uint64
					for id, s := range lastRel {
						if s > bs {
							best, bs = id, s
						}
					}
					if bs != 0 {
						pubAfterRel[best] = TagOf(e.M.Payload)
						pubAfterRelOK[best] = true
					}
				}
			case EvConnSend:
				switch q := e.P.(type) {
				case *packet.Puback:
					tag, ok := lastQ1[q.ID]
					if !ok {
						res.Violate("C07", "C07.ack-order", "puback-unknown", fmt.Sprintf("conn %d: PUBACK(%d) although no QoS 1 PUBLISH with that id arrived", c.Idx, q.ID))
					} else if !released(c.Idx, tag, lastQ1At[q.ID], e.Seq) {
						res.Violate("C07", "C07.ack-order", "puback-before-acceptance", fmt.Sprintf("conn %d: PUBACK(%d) for message #%d entered Send at event %d before the backend acknowledged it", c.Idx, q.ID, tag, e.Seq))
					}
				case *packet.Pubcomp:
					rs, ok := lastRel[q.ID]
					if !ok {
						res.Violate("C07", "C07.ack-order", "pubcomp-unknown", fmt.Sprintf("conn %d: PUBCOMP(%d) without a PUBREL", c.Idx, q.ID))
						break
					}
					relAnswered[rs] = true
					if pubAfterRelOK[q.ID] && !released(c.Idx, pubAfterRel[q.ID], rs, e.Seq) {
						res.Violate("C07", "C07.ack-order", "pubcomp-before-acceptance", fmt.Sprintf("conn %d: PUBCOMP(%d) for message #%d entered Send at event %d before the backend acknowledged it", c.Idx, q.ID, pubAfterRel[q.ID], e.Seq))
					}
				case *packet.Pubrec:
					if e.S != "stored:Publish" {
						res.Violate("C07", "C07.store-before-pubrec", e.S, fmt.Sprintf("conn %d: PUBREC(%d) entered Send while the session held %q under that id", c.Idx, q.ID, e.S))
					}
				}
			}
		}
		// every PUBREL on a connection that stayed up (or that the publisher gave
		// up only after everything had come to rest) is answered
		if (!c.EOF || pb.quietDrop[c]) && !pb.abandoned[c] && ackMode != 2 {
			for _, r := range rels {
				// a later PUBREL with the same id supersedes an earlier one only
				// if it was answered; require one PUBCOMP per PUBREL received
				n := 0
				for _, e := range w.Hist {
					if e.C == c.Idx && e.K == EvConnSent && e.Err == nil && e.Seq > r.seq {
						if q, ok := e.P.(*packet.Pubcomp); ok && q.ID == r.id {
							n++
						}
					}
				}
				if n == 0 {
					res.Violate("C07", "C07.pubrel-answered", "no-pubcomp", fmt.Sprintf("conn %d: PUBREL(%d) received at event %d was never answered by a PUBCOMP although the connection stayed up and acknowledgements flow", c.Idx, r.id, r.seq))
				}
			}
		}
	}
	// exactly once / at least once, over the whole history
	obsCount := map[int]int{}
	for _, e := range obs.Recv {
		if q, ok := e.P.(*packet.Publish); ok && !q.Dup {
			obsCount[TagOf(q.Message.Payload)]++
		}
	}
	done2, done1, open := 0, 0, 0
	for _, f := range pb.flows {
		switch {
		case f.qos == 2:
			if handedAfterAcceptance[f.tag] > 0 {
				res.Violate("C07", "C07.exactly-once", "forwarded-twice", fmt.Sprintf("QoS 2 message #%d (id %d) was handed to the backend again after the backend had accepted it (%d hand-overs, %d accepted)", f.tag, f.id, entered[f.tag], accepted[f.tag]))
			}
			if obsCount[f.tag] > 1 && ackMode == 0 {
				res.Violate("C07", "C07.exactly-once", "delivered-twice", fmt.Sprintf("the observer received QoS 2 message #%d %d times as a new delivery", f.tag, obsCount[f.tag]))
			}
			if f.done {
				done2++
				if accepted[f.tag] == 0 {
					res.Violate("C07", "C07.exactly-once", "never-forwarded", fmt.Sprintf("QoS 2 message #%d (id %d) completed (PUBCOMP received) but was never handed to the backend", f.tag, f.id))
				}
				if obsCount[f.tag] == 0 && !obs.EOF && ackMode == 0 {
					res.Violate("C07", "C07.exactly-once", "never-delivered", fmt.Sprintf("QoS 2 message #%d completed but the observer never received it", f.tag))
				}
			} else {
				open++
			}
		case f.qos == 1:
			if f.done {
				done1++
				if accepted[f.tag] == 0 {
					res.Violate("C07", "C07.at-least-once", "acked-not-forwarded", fmt.Sprintf("QoS 1 message #%d was acknowledged (PUBACK received) but never handed to the backend", f.tag))
				}
			} else {
				open++
			}
		}
	}
	if ackMode != 2 && open > 0 {
		last := pb.cur
		if !last.EOF {
			res.Violate("C07", "C07.progress", "flow-stuck", fmt.Sprintf("%d of %d flows never completed although the publisher retransmitted legally and acknowledgements flow", open, len(pb.flows)))
		}
	}
	if ackMode == 2 {
		// nothing may be acknowledged
		for _, f := range pb.flows {
			if f.done {
				res.Violate("C07", "C07.ack-order", "acked-without-backend-ack", fmt.Sprintf("message #%d was acknowledged although the backend never acknowledged it", f.tag))
			}
		}
	}
	res.Count("flows_qos2_done", int64(done2))
	res.Count("flows_qos1_done", int64(done1))
	res.Count("reconnects", int64(len(pb.conns)-1))
	if p.Knob("stream", 0) == 1 {
		res.Count("token_streams", 1)
	}
	interrupted := p.Knob("fmode", 0) != 0 && len(pb.conns) > 1
	if interrupted {
		res.Count("handshakes_interrupted", 1)
	}
	res.Nontrivial = len(pb.flows) > 0 && (interrupted || len(pb.conns) > 1 || done1+done2 > 0)
	res.State = fmt.Sprintf("%d/%d/%d/%d", done1, done2, open, len(pb.conns))
}
