package brk

import (
	"fmt"
	"testing"
	"time"

	"github.com/256dpi/gomqtt/packet"

	"verif/sim/core"
	"verif/sim/rt"
)

// C20: nothing is processed before an accepted CONNECT; each request gets its
// response. A connection automaton written from the MQTT text judges what the
// scripted peer received and which backend hooks ran for its connection.

func init() {
	core.Register(&core.Check{ID: "C20", Expand: expandC20, Run: runC20})
}

// packet kinds of the plan: 1..14 = MQTT control packet types
func genPkt(r *core.Rand, ty int) core.Item {
	it := core.Item{K: "pkt", A: ty, B: 1 + r.Intn(65535)}
	switch packet.Type(ty) {
	case packet.CONNECT:
		it.S = r.PickS("c1", "c2", "")
		it.C = r.Pick(0, 0, 1, 2) // 0 no credentials (refused when credentials are configured), 1 valid, 2 wrong password
		it.D = r.Pick(0, 0, 4)    // will
	case packet.PUBLISH:
		it.C = r.Intn(3)
		it.S = Topics[r.Intn(len(Topics))]
	case packet.SUBSCRIBE, packet.UNSUBSCRIBE, packet.SUBACK:
		n := r.Range(1, 8)
		for i := 0; i < n; i++ {
			it.L = append(it.L, r.Intn(len(Filters)), r.Intn(3))
		}
	}
	return it
}

func expandC20(_ *testing.T, seed uint64, tier string) []*core.Plan {
	r := core.NewRand(core.Derive(seed, "plan"))
	p := &core.Plan{Check: "C20", Seed: seed}
	p.SetKnob("chunk", r.Pick(0, 0, -1, 1, 3))
	p.SetKnob("pipeline", r.Pick(1, 1, 0))
	p.SetKnob("creds", r.Pick(1, 1, 0)) // broker configured with credentials?
	// first-packet matrix: seeds enumerate (type x credential variant)
	// even seeds: an accepted CONNECT first (request/response correlation);
	// odd seeds enumerate the first-packet matrix (type x credential variant)
	first := int((seed/2)%14) + 1
	cv := int(seed/28) % 3
	if seed%2 == 0 {
		first, cv = int(packet.CONNECT), 1
	}
	it := genPkt(r, first)
	if first == int(packet.CONNECT) {
		it.C = cv
	}
	p.Items = append(p.Items, it)
	n := r.Range(0, 7)
	if r.Chance(1, 4) {
		// few subscribe tokens and a longer run of requests: every SUBACK and
		// UNSUBACK must give its token back, or later requests go unanswered
		p.SetKnob("parsub", r.Pick(1, 2, 3))
		n = r.Range(6, 16)
	}
	idleAt := -1
	if p.Knob("parsub", 0) > 0 && r.Chance(1, 2) {
		// a quiet period longer than the token timeout between two bursts: a
		// token wait that ended in time must not come back to haunt a later one
		idleAt = n / 2
	}
	for i := 0; i < n; i++ {
		if i == idleAt {
			p.Items = append(p.Items, core.Item{K: "idle", A: r.Pick(2500, 6000)})
		}
		ty := 1 + r.Intn(14)
		if r.Chance(2, 3) {
			// mostly requests that deserve a response
			ty = r.Pick(int(packet.SUBSCRIBE), int(packet.UNSUBSCRIBE), int(packet.PINGREQ), int(packet.PUBLISH), int(packet.SUBSCRIBE))
		}
		p.Items = append(p.Items, genPkt(r, ty))
	}
	if r.Chance(1, 10) {
		p.Items = nil // silence: the connect timeout must close the connection
	} else if seed%2 == 0 && r.Chance(1, 10) {
		// the backend fails while the connection is being set up: Setup (no
		// CONNACK yet) or Restore (the accepting CONNACK is already out)
		p.SetKnob("bkfail", r.Pick(1, 2))
	} else if seed%2 == 0 && r.Chance(1, 8) {
		// the peer sends its requests in one burst and reads nothing meanwhile
		// behind a small socket buffer; once it reads again every request must
		// have its answer
		p.SetKnob("deaf", 1)
		p.SetKnob("parsub", r.Pick(1, 2))
		p.SetKnob("parpub", r.Pick(1, 2))
		p.Items = p.Items[:1]
		for i, k := 0, r.Range(6, 30); i < k; i++ {
			p.Items = append(p.Items, genPkt(r, r.Pick(int(packet.PINGREQ), int(packet.PINGREQ), int(packet.SUBSCRIBE), int(packet.UNSUBSCRIBE))))
		}
	}
	return []*core.Plan{p}
}

func mkC20Packet(it core.Item, creds bool) packet.Generic {
	id := packet.ID(it.B)
	if id == 0 {
		id = 1
	}
	switch packet.Type(it.A) {
	case packet.CONNECT:
		c := packet.NewConnect()
		c.ClientID = it.S
		c.CleanSession = true
		switch it.C {
		case 1:
			c.Username, c.Password = "u1", "u1-pw"
		case 2:
			c.Username, c.Password = "u1", "wrong"
		}
		if it.D != 0 {
			c.Will = &packet.Message{Topic: "a/b", Payload: MsgPayload(777, 0), QOS: 1}
		}
		return c
	case packet.CONNACK:
		return packet.NewConnack()
	case packet.PUBLISH:
		pb := packet.NewPublish()
		pb.Message.Topic = it.S
		pb.Message.QOS = packet.QOS(it.C % 3)
		pb.Message.Payload = MsgPayload(int(id), 0)
		if pb.Message.QOS > 0 {
			pb.ID = id
		}
		return pb
	case packet.PUBACK:
		a := packet.NewPuback()
		a.ID = id
		return a
	case packet.PUBREC:
		a := packet.NewPubrec()
		a.ID = id
		return a
	case packet.PUBREL:
		a := packet.NewPubrel()
		a.ID = id
		return a
	case packet.PUBCOMP:
		a := packet.NewPubcomp()
		a.ID = id
		return a
	case packet.SUBSCRIBE:
		s := packet.NewSubscribe()
		s.ID = id
		for i := 0; i+1 < len(it.L); i += 2 {
			s.Subscriptions = append(s.Subscriptions, packet.Subscription{Topic: Filters[it.L[i]%len(Filters)], QOS: packet.QOS(it.L[i+1] % 3)})
		}
		return s
	case packet.SUBACK:
		s := packet.NewSuback()
		s.ID = id
		s.ReturnCodes = []packet.QOS{0}
		return s
	case packet.UNSUBSCRIBE:
		s := packet.NewUnsubscribe()
		s.ID = id
		for i := 0; i+1 < len(it.L); i += 2 {
			s.Topics = append(s.Topics, Filters[it.L[i]%len(Filters)])
		}
		return s
	case packet.UNSUBACK:
		a := packet.NewUnsuback()
		a.ID = id
		return a
	case packet.PINGREQ:
		return packet.NewPingreq()
	case packet.PINGRESP:
		return packet.NewPingresp()
	}
	return packet.NewDisconnect()
}

func runC20(t *testing.T, p *core.Plan) *core.Result {
	res := &core.Result{Check: "C20", Seed: p.Seed}
	cfg := DefaultConfig()
	cfg.Chunk = p.Knob("chunk", 0)
	cfg.ParPublishes, cfg.ParSubscribes = p.Knob("parpub", 64), p.Knob("parsub", 64)
	if p.Knob("parsub", 0) > 0 {
		cfg.TokenTimeout = 2 * time.Second
	}
	creds := p.Knob("creds", 1) == 1
	if creds {
		cfg.Credentials = map[string]string{"u1": "u1-pw"}
	}
	var w *World
	ptxt := core.Bubble(t, p.Seed, p.Yield, func() {
		w = NewWorld(cfg, p.Seed, res)
		switch p.Knob("bkfail", 0) {
		case 1:
			w.BkFail["Setup"] = 1
		case 2:
			w.BkFail["Restore"] = 1
		}
		deaf := p.Knob("deaf", 0) == 1
		pr := w.NewPeer("c20")
		var sent []packet.Generic
		for _, it := range p.Items {
			if it.K == "idle" {
				w.Settle()
				w.Advance(time.Duration(it.A) * time.Millisecond)
				res.Count("idle_periods", 1)
				continue
			}
			if it.K != "pkt" {
				continue
			}
			pk := mkC20Packet(it, creds)
			sent = append(sent, pk)
			pr.Send(pk)
			if deaf && len(sent) == 1 {
				// connected: from now on the peer reads nothing until the burst is out
				w.Settle()
				pr.Link.B2A.Cap = 8
				pr.Stalled = true
				res.Count("deaf_bursts", 1)
				continue
			}
			if p.Knob("pipeline", 1) == 0 && !deaf {
				w.Settle()
			}
		}
		w.Settle()
		if deaf {
			pr.Stalled = false
			w.Settle()
		}
		if len(sent) == 0 {
			w.Advance(cfg.ConnectTimeout + time.Second)
		}
		judgeC20(w, pr, sent, creds, res)
		if leaks := w.Teardown(); len(leaks) > 0 {
			res.Violate("C20", "C20.leak", leaks[0], fmt.Sprintf("%d goroutines still alive after teardown: %v", len(leaks), leaks))
		}
		res.Yields = rt.Yields()
		res.SimNanos = int64(core.SimNow())
	})
	if ptxt != "" {
		res.Violate("C20", "C20.panic", "bubble", ptxt)
	}
	if w != nil {
		res.Hash, res.Events, res.Steps = w.Log.Hash(), w.Log.N, w.Steps
		res.Sched = w.Log.Hash()
	}
	if p.Seed%83 == 0 {
		res.Sample = p.Brief(10)
	}
	return res
}

func judgeC20(w *World, pr *Peer, sent []packet.Generic, creds bool, res *core.Result) {
	calls := map[string]int{}
	for _, c := range BackendCalls(w.Hist) {
		if c.C == pr.Idx {
			calls[c.Call]++
		}
	}
	var recv []packet.Generic
	for _, e := range pr.Recv {
		recv = append(recv, e.P)
	}
	desc := func() string {
		s := "sent ["
		for _, x := range sent {
			s += pktBrief(x) + " "
		}
		s += "] received ["
		for _, x := range recv {
			s += pktBrief(x) + " "
		}
		return s + fmt.Sprintf("] backend calls %v closed=%v", calls, pr.EOF)
	}
	connacks := 0
	for _, x := range recv {
		if x.Type() == packet.CONNACK {
			connacks++
		}
	}
	if connacks > 1 {
		res.Violate("C20", "C20.connack", "more-than-one", "more than one CONNACK was sent: "+desc())
	}
	if len(sent) == 0 {
		res.Count("first_silence", 1)
		if !pr.EOF || len(recv) != 0 || len(calls) != 0 {
			res.Violate("C20", "C20.connect-timeout", "silence", "a silent connection must be closed after the connect timeout without any reply: "+desc())
		}
		res.Nontrivial = true
		return
	}
	first, isConnect := sent[0].(*packet.Connect)
	res.Count("first_"+sent[0].Type().String(), 1)
	if !isConnect {
		res.Nontrivial = true
		if !pr.EOF {
			res.Violate("C20", "C20.first-packet", "not-closed", "a connection whose first packet is not CONNECT must be closed: "+desc())
		}
		if len(recv) != 0 {
			res.Violate("C20", "C20.first-packet", "reply", "nothing may be sent to a connection whose first packet is not CONNECT: "+desc())
		}
		if len(calls) != 0 {
			res.Violate("C20", "C20.first-packet", "backend", "no backend hook may run for a connection whose first packet is not CONNECT: "+desc())
		}
		return
	}
	authOK := !creds || (first.Username == "u1" && first.Password == "u1-pw")
	if !authOK {
		res.Nontrivial = true
		res.Count("auth_refused", 1)
		if len(recv) != 1 || recv[0].Type() != packet.CONNACK || recv[0].(*packet.Connack).ReturnCode != packet.NotAuthorized {
			res.Violate("C20", "C20.auth", "reply", "failed authentication must yield exactly one not-authorised CONNACK: "+desc())
		}
		if !pr.EOF {
			res.Violate("C20", "C20.auth", "not-closed", "connection not closed after failed authentication: "+desc())
		}
		for k := range calls {
			if k != "Authenticate" {
				res.Violate("C20", "C20.auth", "backend-"+k, "after failed authentication the broker still called "+k+": "+desc())
			}
		}
		return
	}
	if bf := w.BkFail["Setup"] + 2*w.BkFail["Restore"]; bf != 0 {
		// the backend failed during set-up: the connection is closed, Setup
		// failing means no CONNACK at all, Restore failing exactly the accepting
		// one; nothing that was pipelined behind the CONNECT is acted upon
		res.Count("backend_failed_during_setup", 1)
		res.Nontrivial = true
		if !pr.EOF {
			res.Violate("C20", "C20.setup-failure", "not-closed", "the backend failed during set-up but the connection stays open: "+desc())
		}
		wantAcks := 0
		if bf == 2 {
			wantAcks = 1
		}
		if connacks != wantAcks || len(recv) != wantAcks {
			res.Violate("C20", "C20.setup-failure", fmt.Sprintf("replies-%d", bf), fmt.Sprintf("expected %d CONNACK and nothing else after the backend failed during set-up: %s", wantAcks, desc()))
		}
		// (a Publish call may be the connection's own will, owed once Setup had accepted it)
		if calls["Subscribe"]+calls["Unsubscribe"] > 0 {
			res.Violate("C20", "C20.setup-failure", "processed", "requests were processed although the set-up failed: "+desc())
		}
		return
	}
	// accepted: walk the automaton over what was sent
	if len(recv) == 0 || recv[0].Type() != packet.CONNACK || recv[0].(*packet.Connack).ReturnCode != packet.ConnectionAccepted {
		res.Violate("C20", "C20.connack", "missing", "an accepted CONNECT must be answered by CONNACK(0) first: "+desc())
		return
	}
	type want struct {
		ty    packet.Type
		id    packet.ID
		codes []packet.QOS
	}
	var wants []want
	pings := 0
	fatal := -1
	nSub, nUnsub, nPub := 0, 0, 0
	for i, x := range sent[1:] {
		stop := false
		switch q := x.(type) {
		case *packet.Subscribe:
			var codes []packet.QOS
			for _, s := range q.Subscriptions {
				codes = append(codes, s.QOS)
			}
			wants = append(wants, want{packet.SUBACK, q.ID, codes})
			nSub++
		case *packet.Unsubscribe:
			wants = append(wants, want{packet.UNSUBACK, q.ID, nil})
			nUnsub++
		case *packet.Pingreq:
			pings++
		case *packet.Publish:
			nPub++
		case *packet.Connect, *packet.Connack, *packet.Suback, *packet.Unsuback, *packet.Pingresp, *packet.Disconnect:
			fatal = i + 1
			stop = true
		}
		if stop {
			break
		}
	}
	live := fatal < 0
	if fatal >= 0 {
		res.Count("fatal_"+sent[fatal].Type().String(), 1)
		if !pr.EOF {
			res.Violate("C20", "C20.out-of-protocol", "not-closed", fmt.Sprintf("packet %d (%s) must end the connection: %s", fatal, sent[fatal].Type(), desc()))
		}
		// nothing after the fatal packet may have been acted upon
		if calls["Subscribe"] > nSub || calls["Unsubscribe"] > nUnsub {
			res.Violate("C20", "C20.out-of-protocol", "processed-after", fmt.Sprintf("requests after the fatal packet %d were processed: %s", fatal, desc()))
		}
	} else if pr.EOF {
		res.Violate("C20", "C20.closed", "innocent", "the connection was closed although every packet was legal: "+desc())
	}
	if calls["Subscribe"] > nSub || calls["Unsubscribe"] > nUnsub {
		res.Violate("C20", "C20.response", "extra-backend-call", "more backend calls than requests: "+desc())
	}
	// responses in request order
	var got []want
	gotPings := 0
	for _, x := range recv[1:] {
		switch q := x.(type) {
		case *packet.Suback:
			got = append(got, want{packet.SUBACK, q.ID, q.ReturnCodes})
		case *packet.Unsuback:
			got = append(got, want{packet.UNSUBACK, q.ID, nil})
		case *packet.Pingresp:
			gotPings++
		case *packet.Connack:
		}
	}
	for i, g := range got {
		if i >= len(wants) {
			res.Violate("C20", "C20.response", "extra", "more SUBACK/UNSUBACK packets than requests: "+desc())
			break
		}
		wn := wants[i]
		if g.ty != wn.ty || g.id != wn.id || fmt.Sprint(g.codes) != fmt.Sprint(wn.codes) {
			res.Violate("C20", "C20.response", "mismatch", fmt.Sprintf("response %d is %v(id %d, %v), request was answered by %v(id %d, %v): %s", i, g.ty, g.id, g.codes, wn.ty, wn.id, wn.codes, desc()))
			break
		}
	}
	if gotPings > pings {
		res.Violate("C20", "C20.response", "extra-pingresp", "more PINGRESP than PINGREQ: "+desc())
	}
	if live {
		if len(got) != len(wants) {
			res.Violate("C20", "C20.response", "missing", fmt.Sprintf("%d of %d SUBSCRIBE/UNSUBSCRIBE requests got no response on a live connection: %s", len(wants)-len(got), len(wants), desc()))
		}
		if gotPings != pings {
			res.Violate("C20", "C20.response", "missing-pingresp", fmt.Sprintf("%d PINGREQ, %d PINGRESP on a live connection: %s", pings, gotPings, desc()))
		}
	}
	res.Nontrivial = len(wants)+pings+nPub > 0 || fatal >= 0
	res.Count("requests", int64(len(wants)+pings))
	res.State = fmt.Sprintf("%v/%d/%d", live, len(wants), fatal)
}
