package brk

import (
	"fmt"
	"testing"
	"time"

	"github.com/256dpi/gomqtt/packet"

	"verif/sim/core"
	"verif/sim/rt"
)

// C12: the will is published exactly once iff an accepted client ends without
// DISCONNECT. Termination cause x protocol state x will QoS/retain are
// enumerated by the seed; three observers (online, offline persistent,
// subscribing later) and the Backend seam are the witnesses.

func init() {
	core.Register(&core.Check{ID: "C12", Expand: expandC12, Run: runC12})
}

const (
	cDisconnect = iota
	cCloseFIN
	cCut
	cRecvError
	cMalformed
	cOversized
	cSecondConnect
	cServerOnly
	cKeepAlive
	cTakeover
	cBackendClose
	cAuthRefused
	cSetupFails
	cBackendError
	cTokenTimeout
	cDisconnectLost
	cSendFails
	cPacketCallback // not reachable through MemoryBackend; kept for numbering stability
	nCauses
)

var causeNames = []string{"disconnect", "close-fin", "cut", "receive-error", "malformed", "oversized", "second-connect",
	"server-only-packet", "keep-alive-expiry", "takeover", "backend-close", "auth-refused", "setup-fails", "backend-error",
	"token-timeout", "disconnect-lost", "send-fails", "unused"}

const (
	sPipelined = iota // the cause strikes right behind the CONNECT, before CONNACK was seen
	sIdle
	sInboundQ1
	sInboundQ2
	sOutboundQ1
	sOutboundQ2
	sTokenBlocked
	nStates
)

var stateNames = []string{"before-connack", "idle", "mid-inbound-qos1", "mid-inbound-qos2", "mid-outbound-qos1", "mid-outbound-qos2", "blocked-on-token"}

func expandC12(_ *testing.T, seed uint64, tier string) []*core.Plan {
	r := core.NewRand(core.Derive(seed, "plan"))
	p := &core.Plan{Check: "C12", Seed: seed}
	// the seed enumerates cause x state x will qos x retain (mixed radix), the
	// PRNG picks the schedule knobs
	k := int(seed)
	cause := k % (nCauses - 1)
	k /= (nCauses - 1)
	state := k % nStates
	k /= nStates
	p.SetKnob("cause", cause)
	p.SetKnob("state", state)
	p.SetKnob("wq", k%3)
	p.SetKnob("wr", (k/3)%2)
	p.SetKnob("chunk", r.Pick(0, 0, -1, 1, 2))
	p.SetKnob("gate", r.Pick(0, 0, 1))
	p.SetKnob("variant", r.Intn(4))
	p.SetKnob("mvar", r.Intn(2)) // second half of the malformed-input list
	p.SetKnob("race", r.Intn(3)) // keep-alive: traffic racing the deadline
	if r.Chance(1, 6) {
		p.SetKnob("fullq", 1) // the online observer's session queue is full when the will is published
	}
	if r.Chance(1, 5) {
		p.SetKnob("pred", 1) // the subject itself displaces an earlier connection with its client id
	}
	if p.Knob("fullq", 0) == 1 && core.NewRand(core.Derive(seed, "o1p")).Chance(1, 2) {
		// the online observer with the full queue has a persistent session (the
		// backend keeps stored sessions apart from temporary ones); drawn from a
		// stream of its own, the other plans stay as they were
		p.SetKnob("o1p", 1)
	}
	p.Yield = r.Pick(0, 0, 0, 8)
	p.Items = []core.Item{{K: "scenario", S: causeNames[cause], T: stateNames[state]}}
	return []*core.Plan{p}
}

func runC12(t *testing.T, p *core.Plan) *core.Result {
	res := &core.Result{Check: "C12", Seed: p.Seed}
	cause, state := p.Knob("cause", 0), p.Knob("state", 1)
	wq, wr := p.Knob("wq", 0), p.Knob("wr", 0) == 1
	variant := p.Knob("variant", 0)
	cfg := DefaultConfig()
	cfg.Chunk = p.Knob("chunk", 0)
	cfg.GateBackend = p.Knob("gate", 0) == 1
	cfg.TokenTimeout = 2 * time.Second
	cfg.ReadLimit = 4096
	cfg.Credentials = map[string]string{"u1": "u1-pw"}
	if state == sInboundQ1 {
		cfg.AckMode = 1 // the backend acknowledges late: the QoS 1 handshake stays open
	}
	if state == sTokenBlocked {
		cfg.ParPublishes = 1
	}
	fullq := p.Knob("fullq", 0) == 1 && cause != cBackendClose && cause != cTokenTimeout && cause != cKeepAlive && state != sTokenBlocked && state != sInboundQ1
	if fullq {
		cfg.QueueSize, cfg.Inflight = 1, 1
	}
	if cause == cSetupFails {
		// the subject's Setup is the third one (two observers connect first)
	}
	var w *World
	ptxt := core.Bubble(t, p.Seed, p.Yield, func() {
		w = NewWorld(cfg, p.Seed, res)
		connect := func(cid string, clean bool) *Peer {
			pr := w.NewPeer(cid)
			c := packet.NewConnect()
			c.ClientID, c.CleanSession = cid, clean
			c.Username, c.Password = "u1", "u1-pw"
			pr.Send(c)
			return pr
		}
		subscribe := func(pr *Peer, f string, q int) {
			s := packet.NewSubscribe()
			s.ID = pr.NextID()
			s.Subscriptions = []packet.Subscription{{Topic: f, QOS: packet.QOS(q)}}
			pr.Send(s)
		}
		// observers
		o1 := connect("o1", p.Knob("o1p", 0) == 0)
		subscribe(o1, "w/#", 2)
		o2 := connect("o2", false)
		subscribe(o2, "w/t", 1)
		w.Settle()
		o2.Drop()
		w.Settle()
		helper := connect("helper", true) // publishes towards the subject
		w.Settle()
		if fullq {
			// one message in flight and unacknowledged, one in the queue: the
			// online observer's queue (capacity 1) is full
			o1.AckMode = 1
			for i := 0; i < 2; i++ {
				pb := packet.NewPublish()
				pb.ID = helper.NextID()
				pb.Message = packet.Message{Topic: "w/fill", QOS: 1, Payload: MsgPayload(50+i, 0)}
				helper.Send(pb)
			}
			w.Settle()
			res.Count("observer_queue_full", 1)
		}

		// the subject
		if cause == cSetupFails {
			w.BkFail["Setup"] = w.bkN["Setup"] + 1
		}
		if p.Knob("pred", 0) == 1 && cause != cSetupFails && cause != cAuthRefused {
			// a predecessor without a will holds the client id; the subject takes
			// over from it and is then itself ended by the cause under test
			pd := w.NewPeer("subj")
			pc := packet.NewConnect()
			pc.ClientID, pc.CleanSession = "subj", variant%2 == 0
			pc.Username, pc.Password = "u1", "u1-pw"
			pd.Send(pc)
			w.Settle()
			res.Count("subject_displaced_a_predecessor", 1)
		}
		s := w.NewPeer("subj")
		s.AckMode = 2 // the scenario decides what the subject answers
		willTag := 900000 + s.Idx
		sc := packet.NewConnect()
		sc.ClientID, sc.CleanSession, sc.KeepAlive = "subj", variant%2 == 0, 10
		sc.Username, sc.Password = "u1", "u1-pw"
		if cause == cAuthRefused {
			sc.Password = "nope"
		}
		sc.Will = &packet.Message{Topic: "w/t", Payload: MsgPayload(willTag, 0), QOS: packet.QOS(wq), Retain: wr}
		if state == sPipelined && cause == cSendFails {
			s.FC.failSendN = 1 // the CONNACK itself cannot be written
		}
		s.Send(sc)
		if state != sPipelined {
			w.Settle()
		}
		// bring the subject into the protocol state
		switch state {
		case sInboundQ1:
			pb := packet.NewPublish()
			pb.ID = 5
			pb.Message = packet.Message{Topic: "x/y", QOS: 1, Payload: MsgPayload(1, 0)}
			s.Send(pb)
			w.SettleNoAcks()
		case sInboundQ2:
			pb := packet.NewPublish()
			pb.ID = 6
			pb.Message = packet.Message{Topic: "x/y", QOS: 2, Payload: MsgPayload(2, 0)}
			s.Send(pb) // PUBREC arrives, no PUBREL is sent
			w.Settle()
		case sOutboundQ1, sOutboundQ2:
			q := 1
			if state == sOutboundQ2 {
				q = 2
			}
			subscribe(s, "x/#", q)
			w.Settle()
			pb := packet.NewPublish()
			pb.ID = helper.NextID()
			pb.Message = packet.Message{Topic: "x/z", QOS: packet.QOS(q), Payload: MsgPayload(3, 0)}
			helper.Send(pb)
			w.Settle()
			if state == sOutboundQ2 && variant >= 2 {
				// go one step further: PUBREC sent, PUBREL received, no PUBCOMP
				for _, e := range s.Recv {
					if q, ok := e.P.(*packet.Publish); ok {
						a := packet.NewPubrec()
						a.ID = q.ID
						s.Send(a)
					}
				}
				w.Settle()
			}
		case sTokenBlocked:
			for i := 0; i < 2; i++ {
				pb := packet.NewPublish()
				pb.ID = packet.ID(7 + i)
				pb.Message = packet.Message{Topic: "x/y", QOS: 2, Payload: MsgPayload(4+i, 0)}
				s.Send(pb)
			}
			w.Settle() // the processor now waits for a publish token
		}
		// the cause
		switch cause {
		case cDisconnect:
			if variant >= 2 {
				// a PINGREQ right before it leaves a PINGRESP in the broker's write
				// buffer, and the peer's socket is gone as soon as the DISCONNECT has
				// been delivered: the flush inside the broker's Close fails
				s.Send(packet.NewPingreq())
				s.CutAfterN = len(s.Sent) + 1
			}
			s.Send(packet.NewDisconnect())
		case cCloseFIN:
			s.CloseClean()
		case cCut:
			s.Drop()
		case cRecvError:
			s.FC.failRecvN = s.FC.recvs + 1
			s.Send(packet.NewPingreq())
		case cMalformed:
			raws := [][]byte{{0x30, 0x02, 0x00}, {0xf0, 0x00}, {0x82, 0x02, 0x00, 0x01}, {0x10, 0xff, 0xff, 0xff, 0xff, 0x7f},
				// reserved flag bits set on otherwise empty packets: a DISCONNECT,
				// PINGREQ or PUBACK look-alike is malformed, not a clean goodbye
				{0xe1, 0x00}, {0xe8, 0x00}, {0xc2, 0x00}, {0x41, 0x02, 0x00, 0x01}}
			raw := raws[(variant+4*p.Knob("mvar", 0))%len(raws)]
			s.SendRaw(raw, "malformed")
		case cOversized:
			pb := packet.NewPublish()
			pb.Message = packet.Message{Topic: "x/y", Payload: make([]byte, 6000)}
			s.Send(pb)
		case cSecondConnect:
			c2 := packet.NewConnect()
			c2.ClientID, c2.CleanSession = "subj", true
			c2.Username, c2.Password = "u1", "u1-pw"
			s.Send(c2)
		case cServerOnly:
			switch variant {
			case 0:
				s.Send(packet.NewPingresp())
			case 1:
				a := packet.NewSuback()
				a.ID, a.ReturnCodes = 1, []packet.QOS{0}
				s.Send(a)
			case 2:
				s.Send(packet.NewConnack())
			default:
				a := packet.NewUnsuback()
				a.ID = 1
				s.Send(a)
			}
		case cKeepAlive:
			// keep-alive 10 s => read timeout 15 s; optionally a PINGREQ races the deadline
			switch p.Knob("race", 0) {
			case 1:
				w.AdvanceRaw(15*time.Second - time.Millisecond)
				s.Send(packet.NewPingreq())
			case 2:
				w.AdvanceRaw(15 * time.Second)
				s.Send(packet.NewPingreq())
			}
			w.Advance(16 * time.Second)
		case cTakeover:
			n := connect("subj", variant >= 2)
			_ = n
		case cBackendClose:
			done := make(chan bool, 1)
			go func() { done <- w.Backend.Close(3 * time.Second) }()
			w.Settle()
			w.Advance(4 * time.Second)
		case cBackendError:
			switch variant % 3 {
			case 0:
				w.BkFail["Subscribe"] = w.bkN["Subscribe"] + 1
				subscribe(s, "q", 0)
			case 1:
				w.BkFail["Publish"] = w.bkN["Publish"] + 1
				pb := packet.NewPublish()
				pb.Message = packet.Message{Topic: "x/y", Payload: MsgPayload(9, 0)}
				s.Send(pb)
			default:
				w.BkFail["Unsubscribe"] = w.bkN["Unsubscribe"] + 1
				u := packet.NewUnsubscribe()
				u.ID, u.Topics = s.NextID(), []string{"q"}
				s.Send(u)
			}
		case cTokenTimeout:
			if state != sTokenBlocked {
				// create the stall first: more QoS 2 publishes than tokens (10)
				for i := 0; i < 12; i++ {
					pb := packet.NewPublish()
					pb.ID = packet.ID(100 + i)
					pb.Message = packet.Message{Topic: "x/y", QOS: 2, Payload: MsgPayload(20+i, 0)}
					s.Send(pb)
				}
				w.Settle()
			}
			w.Advance(3 * time.Second)
		case cDisconnectLost:
			s.DropSendN = len(s.Sent) + 1
			s.Send(packet.NewDisconnect())
		case cSendFails:
			if state != sPipelined {
				s.FC.failSendN = s.FC.sends + 1
				s.Send(packet.NewPingreq())
			}
		}
		w.Settle()
		if state == sTokenBlocked || state == sInboundQ1 {
			// the processor may not have read the cause yet: let the token timeout
			// pass, then release late acknowledgements
			w.Advance(3 * time.Second)
		}
		// causes by which the broker itself ends the connection: it must be over
		// by now, and not only once the harness below gives up on it (the will
		// would then be published - once - for the wrong reason)
		// (malformed input may be an incomplete frame the broker still waits on,
		// keep-alive expiry may be racing a late PINGREQ: not in this list)
		brokerEnds := cause == cTakeover || cause == cBackendClose || cause == cSecondConnect || cause == cServerOnly || cause == cOversized
		if brokerEnds && state != sPipelined && !s.EOF && s.Connack != nil && s.Connack.ReturnCode == 0 {
			n := 0
			for _, e := range w.Hist {
				if e.K == EvBkEnter && e.Call == "Publish" && e.M != nil && TagOf(e.M.Payload) == willTag {
					n++
				}
			}
			res.Violate("C12", "C12.will-count", "connection-not-ended", fmt.Sprintf("cause %s in state %s: the broker has not ended the connection (its will was published %d times so far); it only ends when the peer gives up", causeNames[cause], stateNames[state], n))
		}
		// whatever happened, the connection must be over before the verdict
		if !s.EOF {
			s.Drop()
			w.Settle()
		}
		if fullq {
			// the observer now acknowledges: room appears and the waiting will goes through
			for round := 0; round < 10; round++ {
				pend := o1.Pending
				o1.Pending = nil
				for _, x := range pend {
					o1.Send(x)
				}
				w.Settle()
				if len(o1.Pending) == 0 {
					break
				}
			}
			o1.AckMode = 0
		}
		w.Advance(6 * time.Second) // kill timeouts etc.
		// observer 2 resumes, observer 3 subscribes afterwards
		var o2b, o3 *Peer
		if cause != cBackendClose {
			o2b = connect("o2", false)
			o3 = connect("o3", true)
			subscribe(o3, "w/t", 2)
			w.Settle()
		}
		judgeC12(w, s, o1, o2b, o3, willTag, wq, wr, cause, state, res)
		if leaks := w.Teardown(); len(leaks) > 0 {
			res.Violate("C12", "C12.leak", leaks[0], fmt.Sprintf("%d goroutines still alive after teardown: %v", len(leaks), leaks))
		}
		res.Yields = rt.Yields()
		res.SimNanos = int64(core.SimNow())
	})
	if ptxt != "" {
		res.Violate("C12", "C12.panic", "bubble", ptxt)
	}
	if w != nil {
		res.Hash, res.Events, res.Steps = w.Log.Hash(), w.Log.N, w.Steps
		res.Sched = fmt.Sprintf("%d/%d/%d/%v/%s", cause, state, wq, wr, w.Log.Hash())
	}
	res.State = fmt.Sprintf("%s@%s", causeNames[cause], stateNames[state])
	res.Nontrivial = true
	if p.Seed%131 == 0 {
		res.Sample = p.Brief(4)
	}
	return res
}

func judgeC12(w *World, s, o1, o2, o3 *Peer, willTag, wq int, wr bool, cause, state int, res *core.Result) {
	accepted, disconnected := false, false
	published := 0
	var seen *packet.Message
	for _, e := range w.Hist {
		switch {
		case e.K == EvBkReturn && e.Call == "Setup" && e.C == s.Idx && e.Err == nil:
			accepted = true
		case e.K == EvConnRecv && e.C == s.Idx && e.P != nil && e.P.Type() == packet.DISCONNECT:
			disconnected = true
		case e.K == EvBkEnter && e.Call == "Publish" && e.M != nil && TagOf(e.M.Payload) == willTag:
			published++
			seen = e.M
		case e.K == EvBkReturn && e.Call == "Publish" && e.M != nil && TagOf(e.M.Payload) == willTag && e.Err != nil && e.Err != errInjected:
			// handing the will to the backend is not publishing it if the backend
			// turns it down (nothing was injected here: the backend did it itself)
			res.Violate("C12", "C12.will-count", "refused-by-backend", fmt.Sprintf("the will was handed to the backend, which refused it: %v (cause %s in state %s)", e.Err, causeNames[cause], stateNames[state]))
		}
	}
	// "did not send DISCONNECT": what the broker decoded counts only if the peer
	// really sent a DISCONNECT packet (malformed bytes that a sloppy decoder
	// takes for one are not a goodbye)
	sentDisconnect := false
	for _, e := range s.Sent {
		if e.P != nil && e.P.Type() == packet.DISCONNECT {
			sentDisconnect = true
		}
	}
	disconnected = disconnected && sentDisconnect
	want := 0
	if accepted && !disconnected {
		want = 1
	}
	ctx := fmt.Sprintf("cause %s in state %s, will qos %d retain %v; accepted=%v disconnect-processed=%v", causeNames[cause], stateNames[state], wq, wr, accepted, disconnected)
	res.Count("cause_"+causeNames[cause], 1)
	res.Count("state_"+stateNames[state], 1)
	if want == 1 {
		res.Count("will_expected", 1)
	} else {
		res.Count("will_not_expected", 1)
	}
	if published != want {
		key := "missing"
		if published > want {
			key = "unexpected"
			if want == 1 {
				key = "twice"
			}
		}
		res.Violate("C12", "C12.will-count", key, fmt.Sprintf("the will reached the backend %d times, expected %d (%s)", published, want, ctx))
	}
	if published > 0 && seen != nil {
		if seen.Topic != "w/t" || int(seen.QOS) != wq || seen.Retain != wr || TagOf(seen.Payload) != willTag {
			res.Violate("C12", "C12.will-content", "altered", fmt.Sprintf("the will was published as %s, supplied as topic w/t qos %d retain %v (%s)", seen.String(), wq, wr, ctx))
		}
	}
	count := func(p *Peer) (n int, last *packet.Publish) {
		if p == nil {
			return 0, nil
		}
		for _, e := range p.Recv {
			if q, ok := e.P.(*packet.Publish); ok && TagOf(q.Message.Payload) == willTag && !q.Dup {
				n++
				last = q
			}
		}
		return
	}
	if cause == cBackendClose {
		return // every client is being closed: only the Backend seam is judged
	}
	for _, e := range w.Hist {
		if e.K == EvBkReturn && e.Call == "Publish" && e.M != nil && TagOf(e.M.Payload) == willTag && e.Err != nil {
			// the injected backend failure hit the will's own Publish call: the
			// broker did its part, the (failing) backend delivered nothing
			res.Count("will_publish_hit_by_injected_failure", 1)
			return
		}
	}
	if n, q := count(o1); n != want && !o1.EOF {
		res.Violate("C12", "C12.observer-online", fmt.Sprintf("got%d-want%d", n, want), fmt.Sprintf("the online observer received the will %d times, expected %d (%s)", n, want, ctx))
	} else if q != nil && (q.Message.Retain || int(q.Message.QOS) != wq) {
		res.Violate("C12", "C12.observer-online", "flags", fmt.Sprintf("the online observer received %s, expected retain=false qos=%d (%s)", pktBrief(q), wq, ctx))
	}
	if o2 != nil && o2.Connected() {
		n, _ := count(o2)
		w2 := want
		if wq == 0 {
			w2 = 0
		}
		if n > want || (n < w2) {
			res.Violate("C12", "C12.observer-offline", fmt.Sprintf("got%d-want%d", n, w2), fmt.Sprintf("the persistent observer that was offline received the will %d times after resuming, expected %d (%s)", n, w2, ctx))
		}
	}
	if o3 != nil && o3.Connected() {
		n, q := count(o3)
		w3 := 0
		if want == 1 && wr {
			w3 = 1
		}
		if n != w3 {
			res.Violate("C12", "C12.observer-late", fmt.Sprintf("got%d-want%d", n, w3), fmt.Sprintf("the observer that subscribed afterwards received the will %d times, expected %d (%s)", n, w3, ctx))
		} else if q != nil && !q.Message.Retain {
			res.Violate("C12", "C12.observer-late", "flag", fmt.Sprintf("the late subscriber received the retained will without the retain flag (%s)", ctx))
		}
	}
}
