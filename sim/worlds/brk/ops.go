package brk

import (
	"encoding/hex"
	"fmt"
	"sort"
	"time"

	"github.com/256dpi/gomqtt/packet"

	"verif/sim/core"
)

// Filters and topics of the bounded universe (DESIGN.md C05/C06/C11).
var Filters = []string{"a", "b", "a/b", "a/", "/a", "a/+", "+", "a/#", "#", "+/b", "a/+/c", "/#", "b/#"}
var Topics = []string{"a", "b", "a/b", "a/", "/a", "a/b/c", "b/c", "a/c"}

// Slots maps the plan's peer slots to the current connection of each slot.
type Slots struct {
	W    *World
	Cur  map[int]*Peer
	All  []*Peer
	tagN int
}

func NewSlots(w *World) *Slots { return &Slots{W: w, Cur: map[int]*Peer{}} }

// MsgPayload builds a payload that carries the unique tag and has the asked size.
func MsgPayload(tag, size int) []byte {
	s := fmt.Sprintf("#%d#", tag)
	if size <= len(s) {
		return []byte(s)
	}
	b := make([]byte, size)
	copy(b, s)
	for i := len(s); i < size; i++ {
		b[i] = byte('a' + (tag+i)%26)
	}
	return b
}

// TagOf extracts the tag from a payload built by MsgPayload (-1 if none).
func TagOf(p []byte) int {
	if len(p) < 3 || p[0] != '#' {
		return -1
	}
	n := 0
	for i := 1; i < len(p); i++ {
		if p[i] == '#' {
			if i == 1 {
				return -1
			}
			return n
		}
		if p[i] < '0' || p[i] > '9' {
			return -1
		}
		n = n*10 + int(p[i]-'0')
	}
	return -1
}

// Exec performs one plan item. It returns false for items it does not know.
func (s *Slots) Exec(it core.Item) bool {
	w := s.W
	p := s.Cur[it.P]
	switch it.K {
	case "connect":
		np := w.NewPeer(it.S)
		np.AckMode = it.D % 3
		s.Cur[it.P] = np
		s.All = append(s.All, np)
		c := packet.NewConnect()
		c.ClientID = it.S
		c.CleanSession = it.A == 1
		c.KeepAlive = uint16(it.B)
		if it.C != 0 {
			// will: C = 1 + qos + 3*retain, topic in T after '|', payload tag = 900000+conn idx
			wq := (it.C - 1) % 3
			wr := (it.C-1)/3%2 == 1
			c.Will = &packet.Message{Topic: "will/" + fmt.Sprint(it.P), Payload: MsgPayload(900000+np.Idx, 0), QOS: packet.QOS(wq), Retain: wr}
			if it.C > 6 {
				c.Will.Payload = nil // a will with an empty payload (C = 7..12)
			}
			if len(it.L) > 0 {
				c.Will.Topic = Topics[it.L[0]%len(Topics)]
			}
		}
		if it.T != "" {
			c.Username, c.Password = it.T, it.T+"-pw"
			if it.D >= 100 {
				c.Password = "wrong"
			}
		}
		np.Send(c)
	case "sub":
		if p == nil {
			return true
		}
		sp := packet.NewSubscribe()
		sp.ID = p.NextID()
		for i := 0; i+1 < len(it.L); i += 2 {
			sp.Subscriptions = append(sp.Subscriptions, packet.Subscription{Topic: Filters[it.L[i]%len(Filters)], QOS: packet.QOS(it.L[i+1] % 3)})
		}
		if len(sp.Subscriptions) == 0 {
			return true
		}
		p.Send(sp)
	case "unsub":
		if p == nil {
			return true
		}
		up := packet.NewUnsubscribe()
		up.ID = p.NextID()
		for _, f := range it.L {
			up.Topics = append(up.Topics, Filters[f%len(Filters)])
		}
		if len(up.Topics) == 0 {
			return true
		}
		p.Send(up)
	case "pub":
		if p == nil {
			return true
		}
		pb := packet.NewPublish()
		pb.Message.Topic = it.S
		pb.Message.QOS = packet.QOS(it.A % 3)
		pb.Message.Retain = it.B == 1
		pb.Message.Payload = MsgPayload(it.D, it.C)
		if it.B == 2 { // retained with empty payload: clears
			pb.Message.Retain = true
			pb.Message.Payload = nil
		}
		if it.B == 3 { // empty payload without the flag: an ordinary message
			pb.Message.Payload = nil
		}
		if pb.Message.QOS > 0 {
			pb.ID = p.NextID()
		}
		p.Send(pb)
	case "ping":
		if p != nil {
			p.Send(packet.NewPingreq())
		}
	case "disconnect":
		if p != nil {
			p.Send(packet.NewDisconnect())
		}
	case "drop":
		if p != nil {
			p.Drop()
		}
	case "close":
		if p != nil {
			p.CloseClean()
		}
	case "adv":
		w.Advance(time.Duration(it.A) * time.Millisecond)
	case "raw":
		if p != nil {
			b, _ := hex.DecodeString(it.S)
			p.SendRaw(b, it.T)
		}
	default:
		return false
	}
	return true
}

/* ---------- history helpers shared by the oracles ---------- */

// Interval of a backend call.
type BkCall struct {
	Call           string
	C              int
	CID            string
	Enter, Commit  uint64
	Start          uint64 // after the simulator's gate (== Enter when ungated)
	Return         uint64
	Err            error
	P              packet.Generic
	M              *packet.Message
	Clean          bool
	Resumed        bool
	OK             bool
	EnterEv, RetEv *Ev
}

// BackendCalls pairs enter/return events per connection and call name.
func BackendCalls(h []*Ev) []*BkCall {
	var out []*BkCall
	open := map[string][]*BkCall{}
	key := func(e *Ev) string { return fmt.Sprintf("%d/%s", e.C, e.Call) }
	for _, e := range h {
		switch e.K {
		case EvBkEnter:
			c := &BkCall{Call: e.Call, C: e.C, CID: e.CID, Enter: e.Seq, Start: e.Seq, P: e.P, M: e.M, Clean: e.B, EnterEv: e}
			open[key(e)] = append(open[key(e)], c)
			out = append(out, c)
		case EvBkStart:
			if l := open[key(e)]; len(l) > 0 {
				l[len(l)-1].Start = e.Seq
			}
		case EvBkCommit:
			if l := open[key(e)]; len(l) > 0 {
				l[len(l)-1].Commit = e.Seq
			}
		case EvBkReturn:
			if e.Call == "Dequeue" {
				continue
			}
			if l := open[key(e)]; len(l) > 0 {
				c := l[0]
				open[key(e)] = l[1:]
				c.Return, c.Err, c.RetEv = e.Seq, e.Err, e
				c.Resumed = e.S == "resumed=true"
				c.OK = e.S == "ok=true"
			}
		}
	}
	return out
}

// Eff is the moment a call takes effect inside the backend: its commit point
// if one was observed (the acknowledgement runs inside the critical section),
// else the moment it left the gate.
func (c *BkCall) Eff() uint64 {
	if c.Commit != 0 {
		return c.Commit
	}
	return c.Start
}

// ByEffect sorts calls by Eff.
func ByEffect(calls []*BkCall) []*BkCall {
	out := append([]*BkCall{}, calls...)
	sort.SliceStable(out, func(i, j int) bool { return out[i].Eff() < out[j].Eff() })
	return out
}

// Overlaps reports whether the real executions of two calls overlap in time.
func (c *BkCall) Overlaps(d *BkCall) bool {
	cr, dr := c.Return, d.Return
	if cr == 0 {
		cr = ^uint64(0)
	}
	if dr == 0 {
		dr = ^uint64(0)
	}
	return c.Start < dr && d.Start < cr
}

func clonePlan(p *core.Plan) *core.Plan {
	q := *p
	q.Items = append([]core.Item{}, p.Items...)
	q.Knobs = map[string]int{}
	for k, v := range p.Knobs {
		q.Knobs[k] = v
	}
	return &q
}
