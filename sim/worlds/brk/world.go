// Package brk is the W-broker world: the real broker.Engine and MemoryBackend
// behind a probing Backend wrapper; every connection is a real
// transport.NetConn over the simulated byte link, wrapped by a fault-injecting
// transport.Conn; the clients are scripted peers that live inside the
// simulator (no goroutine) and speak through the real packet codec.
package brk

import (
	"errors"
	"fmt"
	"io"
	"net"
	"strings"
	"testing/synctest"
	"time"

	"github.com/256dpi/gomqtt/broker"
	"github.com/256dpi/gomqtt/packet"
	"github.com/256dpi/gomqtt/session"
	"github.com/256dpi/gomqtt/transport"

	"verif/sim/core"
	"verif/sim/rt"
	"verif/sim/simnet"
)

var errInjected = errors.New("injected failure")

// Ev is one entry of the recorded history. Seq is the global event number.
type Ev struct {
	Seq  uint64
	K    string // kind, see the constants
	C    int    // connection / peer index (0 = none)
	CID  string // client id where known
	P    packet.Generic
	M    *packet.Message
	Err  error
	Call string // backend call or log event name
	N    int    // index of the call / packet on its connection
	A    int
	B    bool
	S    string
	At   time.Duration
}

const (
	EvPeerSend  = "peer-send"   // peer wrote a packet to the wire
	EvPeerRecv  = "peer-recv"   // peer decoded a packet from the broker
	EvPeerEOF   = "peer-eof"    // peer saw its connection end
	EvPeerRaw   = "peer-raw"    // peer wrote raw bytes
	EvBkEnter   = "bk-enter"    // broker called the backend
	EvBkStart   = "bk-start"    // the call left the simulator's gate and runs in the real backend
	EvBkCommit  = "bk-commit"   // the backend invoked the ack (inside its critical section)
	EvBkReturn  = "bk-return"   // backend call returned
	EvAckRel    = "ack-release" // the broker's own ack closure was invoked
	EvConnSend  = "conn-send"   // broker entered Send on its transport.Conn
	EvConnSent  = "conn-sent"   // that Send returned
	EvConnRecv  = "conn-recv"   // broker's Receive returned
	EvConnClose = "conn-close"  // broker closed its transport.Conn
	EvLog       = "log"         // Backend.Log
	EvFault     = "fault"
	EvNote      = "note"
)

// Config are the swarm knobs of a run.
type Config struct {
	QueueSize      int
	Inflight       int
	ParPublishes   int
	ParSubscribes  int
	TokenTimeout   time.Duration
	KillTimeout    time.Duration
	MaxKeepAlive   time.Duration
	ConnectTimeout time.Duration
	ReadLimit      int64
	WriteDelay     time.Duration
	Credentials    map[string]string
	Chunk          int // delivery chunking: 0 whole, >0 fixed, <0 random
	GateBackend    bool
	AckMode        int // backend ack: 0 synchronous, 1 late (driver releases, in order), 2 never, 3 late in seeded order
	SockBuf        int // >0: bounded broker->peer socket buffer (not used yet)
	ParkN          int // >0: park broker goroutines at gomqtt lock sites with probability 1/ParkN
}

func DefaultConfig() Config {
	return Config{QueueSize: 100, Inflight: 10, ParPublishes: 10, ParSubscribes: 10,
		TokenTimeout: 30 * time.Second, KillTimeout: 5 * time.Second, MaxKeepAlive: 5 * time.Minute,
		ConnectTimeout: 10 * time.Second, ReadLimit: 8 * 1024 * 1024, WriteDelay: 10 * time.Millisecond}
}

type parked struct {
	name string
	c    int
	ch   chan struct{}
}

type lateAck struct {
	c    int
	call string
	msg  *packet.Message
	fn   broker.Ack
}

// World is one simulated broker with its peers.
type World struct {
	Cfg     Config
	Log     *core.Log
	Sched   *core.Rand
	Res     *core.Result
	Backend *broker.MemoryBackend
	Probe   *probeBackend
	Engine  *broker.Engine
	Server  *simServer
	Peers   []*Peer // index 0 unused
	Hist    []*Ev
	Steps   int

	parked   []*parked
	lateAcks []*lateAck
	Raw      []*RawLink // links whose far end is real code (W-e2e), not a scripted peer

	// fault plan: fail the n-th call of a backend method
	BkFail map[string]int
	bkN    map[string]int
}

func NewWorld(cfg Config, seed uint64, res *core.Result) *World {
	w := &World{Cfg: cfg, Log: core.NewLog(false), Sched: core.NewRand(core.Derive(seed, "sched")), Res: res,
		BkFail: map[string]int{}, bkN: map[string]int{}}
	w.Peers = append(w.Peers, nil)
	b := broker.NewMemoryBackend()
	b.SessionQueueSize = cfg.QueueSize
	b.KillTimeout = cfg.KillTimeout
	b.ClientMaximumKeepAlive = cfg.MaxKeepAlive
	b.ClientParallelPublishes = cfg.ParPublishes
	b.ClientParallelSubscribes = cfg.ParSubscribes
	b.ClientInflightMessages = cfg.Inflight
	b.ClientTokenTimeout = cfg.TokenTimeout
	b.Credentials = cfg.Credentials
	w.Backend = b
	w.Probe = &probeBackend{w: w, inner: b, clients: map[*broker.Client]int{}, byIdx: map[int]*broker.Client{}}
	w.Engine = broker.NewEngine(w.Probe)
	w.Engine.ConnectTimeout = cfg.ConnectTimeout
	w.Engine.ReadLimit = cfg.ReadLimit
	w.Engine.MaxWriteDelay = cfg.WriteDelay
	w.Server = newSimServer()
	core.ParkStart(seed, cfg.ParkN)
	w.Engine.Accept(w.Server)
	return w
}

// snap copies a packet so that later in-place changes by the system (the
// resend loop sets Dup on the stored object) do not rewrite history.
func snap(p packet.Generic) packet.Generic {
	switch q := p.(type) {
	case *packet.Publish:
		c := *q
		return &c
	case *packet.Connect:
		c := *q
		return &c
	}
	return p
}

func (w *World) ev(e *Ev) *Ev {
	e.Seq = rt.Tick()
	if e.P != nil {
		e.P = snap(e.P)
	}
	e.At = core.SimNow()
	w.Hist = append(w.Hist, e)
	var b strings.Builder
	fmt.Fprintf(&b, "%s c%d", e.K, e.C)
	if e.Call != "" {
		b.WriteString(" " + e.Call)
	}
	if e.P != nil {
		b.WriteString(" " + pktBrief(e.P))
	}
	if e.M != nil {
		fmt.Fprintf(&b, " msg(%s q%d r%v %s)", e.M.Topic, e.M.QOS, e.M.Retain, payloadTag(e.M.Payload))
	}
	if e.Err != nil {
		b.WriteString(" err=" + e.Err.Error())
	}
	if e.S != "" {
		b.WriteString(" " + e.S)
	}
	if e.N != 0 {
		fmt.Fprintf(&b, " #%d", e.N)
	}
	w.Log.AddAt(e.Seq, b.String())
	return e
}

// Note records a free-form driver event.
func (w *World) Note(format string, a ...interface{}) {
	w.ev(&Ev{K: EvNote, S: fmt.Sprintf(format, a...)})
}

func payloadTag(p []byte) string {
	if len(p) > 24 {
		return fmt.Sprintf("%s…(%d)", p[:24], len(p))
	}
	return string(p)
}

func pktBrief(p packet.Generic) string {
	switch q := p.(type) {
	case *packet.Publish:
		return fmt.Sprintf("PUBLISH(id%d %s q%d r%v d%v %s)", q.ID, q.Message.Topic, q.Message.QOS, q.Message.Retain, q.Dup, payloadTag(q.Message.Payload))
	case *packet.Puback:
		return fmt.Sprintf("PUBACK(%d)", q.ID)
	case *packet.Pubrec:
		return fmt.Sprintf("PUBREC(%d)", q.ID)
	case *packet.Pubrel:
		return fmt.Sprintf("PUBREL(%d)", q.ID)
	case *packet.Pubcomp:
		return fmt.Sprintf("PUBCOMP(%d)", q.ID)
	case *packet.Connect:
		s := fmt.Sprintf("CONNECT(%q clean=%v ka=%d", q.ClientID, q.CleanSession, q.KeepAlive)
		if q.Will != nil {
			s += fmt.Sprintf(" will=%s/q%d/r%v", q.Will.Topic, q.Will.QOS, q.Will.Retain)
		}
		if q.Username != "" {
			s += " user=" + q.Username
		}
		return s + ")"
	case *packet.Connack:
		return fmt.Sprintf("CONNACK(%d sp=%v)", q.ReturnCode, q.SessionPresent)
	case *packet.Subscribe:
		s := fmt.Sprintf("SUBSCRIBE(%d", q.ID)
		for _, x := range q.Subscriptions {
			s += fmt.Sprintf(" %s:q%d", x.Topic, x.QOS)
		}
		return s + ")"
	case *packet.Suback:
		return fmt.Sprintf("SUBACK(%d %v)", q.ID, q.ReturnCodes)
	case *packet.Unsubscribe:
		return fmt.Sprintf("UNSUBSCRIBE(%d %v)", q.ID, q.Topics)
	case *packet.Unsuback:
		return fmt.Sprintf("UNSUBACK(%d)", q.ID)
	}
	return p.Type().String()
}

/* ---------- simServer: what Engine.Accept listens on ---------- */

type simServer struct {
	ch     chan transport.Conn
	closed chan struct{}
	done   bool
}

func newSimServer() *simServer {
	return &simServer{ch: make(chan transport.Conn, 64), closed: make(chan struct{})}
}

func (s *simServer) Accept() (transport.Conn, error) {
	select {
	case c := <-s.ch:
		return c, nil
	case <-s.closed:
		return nil, errors.New("simnet: server closed")
	}
}

func (s *simServer) Close() error {
	if !s.done {
		s.done = true
		close(s.closed)
	}
	return nil
}

func (s *simServer) Addr() net.Addr { return &net.TCPAddr{} }

/* ---------- faultConn: the broker's side of a connection ---------- */

type faultConn struct {
	transport.Conn
	w    *World
	idx  int
	link *simnet.Link

	sends   int
	recvs   int
	sentLen int // bytes of all packets accepted by the inner Send
	closed  bool

	// faults
	failSendN    int  // fail the n-th Send ...
	failSendPost bool // ... after delegating (the packet reaches the peer, then the link dies)
	failRecvN    int  // the n-th Receive fails although a packet arrived
	cutAtDeliv   int  // cut the link once B2A has delivered this many bytes (-1 = off)
}

func (f *faultConn) Send(pkt packet.Generic, async bool) error {
	f.sends++
	n := f.sends
	e := &Ev{K: EvConnSend, C: f.idx, P: pkt, N: n, B: async}
	// state the oracles need at exactly this moment
	if cl := f.w.Probe.byIdx[f.idx]; cl != nil && cl.Session() != nil {
		switch q := pkt.(type) {
		case *packet.Publish:
			if q.Message.QOS > 0 {
				st, _ := cl.Session().LookupPacket(session.Outgoing, q.ID)
				if st != nil {
					e.S = "stored:" + st.Type().String()
				} else {
					e.S = "stored:none"
				}
			}
		case *packet.Pubrel:
			st, _ := cl.Session().LookupPacket(session.Outgoing, q.ID)
			if st != nil {
				e.S = "stored:" + st.Type().String()
			} else {
				e.S = "stored:none"
			}
		case *packet.Pubrec:
			st, _ := cl.Session().LookupPacket(session.Incoming, q.ID)
			if st != nil {
				e.S = "stored:" + st.Type().String()
			} else {
				e.S = "stored:none"
			}
		}
	}
	f.w.ev(e)
	if f.failSendN == n && !f.failSendPost {
		f.w.ev(&Ev{K: EvFault, C: f.idx, S: "cut before send", N: n, P: pkt})
		f.w.Res.Count("fault_cut_before_send", 1)
		f.link.Cut()
		f.w.ev(&Ev{K: EvConnSent, C: f.idx, P: pkt, N: n, Err: errInjected})
		return errInjected
	}
	err := f.Conn.Send(pkt, async)
	if err == nil {
		f.sentLen += pkt.Len()
	}
	if f.failSendN == n && f.failSendPost && err == nil {
		// the packet travels to the peer, then the link dies
		f.cutAtDeliv = f.sentLen
		f.w.ev(&Ev{K: EvFault, C: f.idx, S: "cut after send reaches the peer", N: n, P: pkt})
		f.w.Res.Count("fault_cut_after_send", 1)
	}
	f.w.ev(&Ev{K: EvConnSent, C: f.idx, P: pkt, N: n, Err: err})
	return err
}

func (f *faultConn) Receive() (packet.Generic, error) {
	pkt, err := f.Conn.Receive()
	if err == nil {
		f.recvs++
		if f.failRecvN == f.recvs {
			f.w.ev(&Ev{K: EvFault, C: f.idx, S: "receive fails, packet dropped", N: f.recvs, P: pkt})
			f.w.Res.Count("fault_receive_error", 1)
			f.link.Cut()
			_ = f.Conn.Close()
			pkt, err = nil, errInjected
		}
	}
	f.w.ev(&Ev{K: EvConnRecv, C: f.idx, P: pkt, Err: err, N: f.recvs})
	return pkt, err
}

func (f *faultConn) Close() error {
	if !f.closed {
		f.closed = true
		f.w.ev(&Ev{K: EvConnClose, C: f.idx})
	}
	return f.Conn.Close()
}

/* ---------- probeBackend ---------- */

type probeBackend struct {
	w       *World
	inner   *broker.MemoryBackend
	clients map[*broker.Client]int
	byIdx   map[int]*broker.Client
}

func (p *probeBackend) idx(c *broker.Client) int {
	if i, ok := p.clients[c]; ok {
		return i
	}
	i := 0
	if fc, ok := c.Conn().(*faultConn); ok {
		i = fc.idx
	}
	p.clients[c] = i
	p.byIdx[i] = c
	return i
}

// allClients returns every broker.Client the probe has seen, by connection index.
func (p *probeBackend) allClients() map[int]*broker.Client {
	out := map[int]*broker.Client{}
	for i, c := range p.byIdx {
		out[i] = c
	}
	return out
}

// enter records the call, applies the gate and the fault plan.
func (p *probeBackend) enter(call string, c *broker.Client, e *Ev) (int, error) {
	w := p.w
	i := p.idx(c)
	w.bkN[call]++
	n := w.bkN[call]
	e.K, e.C, e.Call, e.N, e.CID = EvBkEnter, i, call, n, c.ID()
	w.ev(e)
	if w.Cfg.GateBackend {
		pk := &parked{name: call, c: i, ch: make(chan struct{})}
		w.parked = append(w.parked, pk)
		<-pk.ch
		w.ev(&Ev{K: EvBkStart, C: i, Call: call, N: n})
	}
	if w.BkFail[call] == n {
		w.ev(&Ev{K: EvFault, C: i, Call: call, N: n, S: "backend call fails"})
		w.Res.Count("fault_backend_"+call, 1)
		return i, errInjected
	}
	return i, nil
}

func (p *probeBackend) ret(call string, i int, err error, s string) {
	p.w.ev(&Ev{K: EvBkReturn, C: i, Call: call, Err: err, S: s})
}

func (p *probeBackend) Authenticate(c *broker.Client, user, password string) (bool, error) {
	i, err := p.enter("Authenticate", c, &Ev{S: user})
	if err != nil {
		p.ret("Authenticate", i, err, "")
		return false, err
	}
	ok, err := p.inner.Authenticate(c, user, password)
	p.ret("Authenticate", i, err, fmt.Sprintf("ok=%v", ok))
	return ok, err
}

func (p *probeBackend) Setup(c *broker.Client, id string, clean bool) (broker.Session, bool, error) {
	i, err := p.enter("Setup", c, &Ev{S: fmt.Sprintf("id=%q clean=%v", id, clean), B: clean})
	if err != nil {
		p.ret("Setup", i, err, "")
		return nil, false, err
	}
	s, resumed, err := p.inner.Setup(c, id, clean)
	p.ret("Setup", i, err, fmt.Sprintf("resumed=%v", resumed))
	return s, resumed, err
}

func (p *probeBackend) Restore(c *broker.Client) error {
	i, err := p.enter("Restore", c, &Ev{})
	if err == nil {
		err = p.inner.Restore(c)
	}
	p.ret("Restore", i, err, "")
	return err
}

func (p *probeBackend) wrapAck(i int, call string, msg *packet.Message, ack broker.Ack) broker.Ack {
	w := p.w
	if ack == nil {
		// the broker passes no acknowledgement for a will: the backend must see
		// exactly that (MemoryBackend's behaviour may - wrongly - depend on it)
		return nil
	}
	return func() {
		w.ev(&Ev{K: EvBkCommit, C: i, Call: call, M: msg})
		switch w.Cfg.AckMode {
		case 0:
			w.ev(&Ev{K: EvAckRel, C: i, Call: call, M: msg})
			ack()
		case 1, 3:
			w.lateAcks = append(w.lateAcks, &lateAck{i, call, msg, ack})
		default:
			w.Res.Count("acks_withheld", 1)
		}
	}
}

func (p *probeBackend) Subscribe(c *broker.Client, subs []packet.Subscription, ack broker.Ack) error {
	sp := packet.NewSubscribe()
	sp.Subscriptions = append([]packet.Subscription{}, subs...)
	i, err := p.enter("Subscribe", c, &Ev{P: sp})
	if err == nil {
		err = p.inner.Subscribe(c, subs, p.wrapAck(i, "Subscribe", nil, ack))
	}
	p.ret("Subscribe", i, err, "")
	return err
}

func (p *probeBackend) Unsubscribe(c *broker.Client, topics []string, ack broker.Ack) error {
	up := packet.NewUnsubscribe()
	up.Topics = append([]string{}, topics...)
	i, err := p.enter("Unsubscribe", c, &Ev{P: up})
	if err == nil {
		err = p.inner.Unsubscribe(c, topics, p.wrapAck(i, "Unsubscribe", nil, ack))
	}
	p.ret("Unsubscribe", i, err, "")
	return err
}

func (p *probeBackend) Publish(c *broker.Client, msg *packet.Message, ack broker.Ack) error {
	cp := msg.Copy() // the backend clears the retain flag in place
	i, err := p.enter("Publish", c, &Ev{M: cp})
	if err == nil {
		err = p.inner.Publish(c, msg, p.wrapAck(i, "Publish", cp, ack))
	}
	p.w.ev(&Ev{K: EvBkReturn, C: i, Call: "Publish", Err: err, M: cp})
	return err
}

func (p *probeBackend) Dequeue(c *broker.Client) (*packet.Message, broker.Ack, error) {
	// not gated and not counted as an event on entry: it blocks for long
	i := p.idx(c)
	p.w.bkN["Dequeue"]++
	if p.w.BkFail["Dequeue"] == p.w.bkN["Dequeue"] {
		p.w.ev(&Ev{K: EvFault, C: i, Call: "Dequeue", S: "backend call fails"})
		p.w.Res.Count("fault_backend_Dequeue", 1)
		return nil, nil, errInjected
	}
	m, a, err := p.inner.Dequeue(c)
	if m != nil || err != nil {
		p.w.ev(&Ev{K: EvBkReturn, C: i, Call: "Dequeue", M: m, Err: err})
	}
	return m, a, err
}

func (p *probeBackend) Terminate(c *broker.Client) error {
	i, err := p.enter("Terminate", c, &Ev{})
	if err == nil {
		err = p.inner.Terminate(c)
	}
	p.ret("Terminate", i, err, "")
	return err
}

func (p *probeBackend) Log(event broker.LogEvent, c *broker.Client, pkt packet.Generic, msg *packet.Message, err error) {
	i := p.idx(c)
	p.w.ev(&Ev{K: EvLog, C: i, Call: string(event), P: pkt, M: msg, Err: err})
}

/* ---------- peers ---------- */

// Peer is a scripted MQTT client inside the simulator.
type Peer struct {
	w     *World
	Idx   int
	CID   string
	Link  *simnet.Link
	FC    *faultConn
	inbuf []byte

	Recv    []*Ev
	Sent    []*Ev
	EOF     bool
	EOFErr  error
	Connack *packet.Connack
	nextID  uint16

	// reaction policy for inbound QoS flows: 0 prompt, 1 deferred (driver
	// action), 2 never
	AckMode int
	Pending []packet.Generic

	// Stalled: the peer stops reading (the simulator delivers nothing to it)
	Stalled bool

	// faults on the peer->broker direction
	DropSendN  int // the n-th packet the peer writes is lost and the link dies
	CutAfterN  int // the link dies right after the n-th packet was delivered
	cutAtDeliv int

	sentBytes int
}

// NewPeer opens a connection and hands its broker side to the engine.
func (w *World) NewPeer(cid string) *Peer {
	idx := len(w.Peers)
	link := simnet.NewLink(idx)
	p := &Peer{w: w, Idx: idx, CID: cid, Link: link, cutAtDeliv: -1}
	link.B2A.Sink = p.onBytes
	link.B2A.SinkEOF = p.onEOF
	fc := &faultConn{Conn: transport.NewNetConn(link.B), w: w, idx: idx, link: link, cutAtDeliv: -1}
	p.FC = fc
	w.Peers = append(w.Peers, p)
	if w.Server.done {
		_ = fc.Close()
	} else {
		w.Server.ch <- fc
	}
	return p
}

func (p *Peer) NextID() packet.ID {
	p.nextID++
	if p.nextID == 0 {
		p.nextID = 1
	}
	return packet.ID(p.nextID)
}

// Send writes a packet to the wire (it is in flight until delivered).
func (p *Peer) Send(pkt packet.Generic) {
	n := len(p.Sent) + 1
	e := p.w.ev(&Ev{K: EvPeerSend, C: p.Idx, CID: p.CID, P: pkt, N: n})
	p.Sent = append(p.Sent, e)
	if p.EOF || p.Link.A2B.Broken() {
		e.S = "lost: connection is gone"
		return
	}
	if p.DropSendN == n {
		p.w.ev(&Ev{K: EvFault, C: p.Idx, S: "cut before peer packet", N: n, P: pkt})
		p.w.Res.Count("fault_cut_before_recv", 1)
		e.S = "lost: link cut"
		p.Link.Cut()
		return
	}
	buf := make([]byte, pkt.Len())
	k, err := pkt.Encode(buf)
	if err != nil {
		panic("peer packet does not encode: " + err.Error())
	}
	_, _ = p.Link.A2B.Write(buf[:k])
	p.sentBytes += k
	if p.CutAfterN == n {
		p.cutAtDeliv = p.sentBytes
	}
}

// SendRaw writes arbitrary bytes.
func (p *Peer) SendRaw(b []byte, what string) {
	p.w.ev(&Ev{K: EvPeerRaw, C: p.Idx, S: what, N: len(b)})
	if p.EOF || p.Link.A2B.Broken() {
		return
	}
	_, _ = p.Link.A2B.Write(b)
	p.sentBytes += len(b)
}

// Drop closes the peer's end abruptly (both directions die).
func (p *Peer) Drop() {
	p.w.ev(&Ev{K: EvFault, C: p.Idx, S: "peer drops the connection"})
	p.Link.Cut()
}

// CloseClean half-closes like a client that calls close() on its socket.
func (p *Peer) CloseClean() {
	p.w.ev(&Ev{K: EvNote, C: p.Idx, S: "peer closes its socket"})
	p.Link.A2B.CloseWrite()
}

func (p *Peer) onEOF(err error) {
	if p.EOF {
		return
	}
	p.EOF = true
	p.EOFErr = err
	p.w.ev(&Ev{K: EvPeerEOF, C: p.Idx, Err: err})
}

func (p *Peer) onBytes(b []byte) {
	p.inbuf = append(p.inbuf, b...)
	for {
		l, ty := packet.DetectPacket(p.inbuf)
		if l <= 0 || l > len(p.inbuf) {
			return
		}
		pkt, err := ty.New()
		if err == nil {
			_, err = pkt.Decode(p.inbuf[:l])
		}
		if err != nil {
			p.w.Res.Violate(p.w.Res.Check, p.w.Res.Check+".wire", "undecodable",
				fmt.Sprintf("peer %d cannot decode what the broker sent: %v", p.Idx, err))
			p.inbuf = nil
			return
		}
		p.inbuf = p.inbuf[l:]
		e := p.w.ev(&Ev{K: EvPeerRecv, C: p.Idx, CID: p.CID, P: pkt, N: len(p.Recv) + 1})
		p.Recv = append(p.Recv, e)
		p.react(pkt)
	}
}

func (p *Peer) react(pkt packet.Generic) {
	var resp packet.Generic
	switch q := pkt.(type) {
	case *packet.Connack:
		if p.Connack == nil {
			p.Connack = q
		}
	case *packet.Publish:
		switch q.Message.QOS {
		case 1:
			a := packet.NewPuback()
			a.ID = q.ID
			resp = a
		case 2:
			a := packet.NewPubrec()
			a.ID = q.ID
			resp = a
		}
	case *packet.Pubrel:
		a := packet.NewPubcomp()
		a.ID = q.ID
		resp = a
	case *packet.Pubrec:
		a := packet.NewPubrel()
		a.ID = q.ID
		resp = a
	}
	if resp == nil {
		return
	}
	switch p.AckMode {
	case 0:
		p.Send(resp)
	case 1:
		p.Pending = append(p.Pending, resp)
	}
}

// Connected reports whether the peer got CONNACK(0) and its link is up.
func (p *Peer) Connected() bool {
	return p.Connack != nil && p.Connack.ReturnCode == packet.ConnectionAccepted && !p.EOF
}

/* ---------- raw links (the far end is a real client) ---------- */

// RawLink is a connection into the broker whose other end is handed to real
// client code as a net.Conn.
type RawLink struct {
	Idx  int
	Link *simnet.Link
	FC   *faultConn
	// CutA2BAt cuts the link once this many bytes have travelled from the client
	// to the broker (-1 = off): "the packet went out, then the connection died"
	CutA2BAt int
}

// FailBrokerSend makes the broker's k-th Send from now on this connection fail,
// before the packet leaves or (post) after it has reached the client.
func (rl *RawLink) FailBrokerSend(k int, post bool) {
	rl.FC.failSendN, rl.FC.failSendPost = rl.FC.sends+k, post
}

// FailBrokerRecv makes the broker's k-th Receive from now fail (packet dropped).
func (rl *RawLink) FailBrokerRecv(k int) { rl.FC.failRecvN = rl.FC.recvs + k }

// rawPending reports whether a pipe of a raw link has something to do.
func (w *World) rawPending(rl *RawLink, p *simnet.Pipe) bool {
	if p.Broken() {
		return false
	}
	if p.InFlight() > 0 {
		return true
	}
	if p == rl.Link.B2A && rl.FC.cutAtDeliv >= 0 && p.Delivered >= rl.FC.cutAtDeliv {
		return true
	}
	return p == rl.Link.A2B && rl.CutA2BAt >= 0 && p.Delivered >= rl.CutA2BAt
}

// deliverRaw moves up to n bytes on one pipe of a raw link, honouring the armed
// cut positions of both directions.
func (w *World) deliverRaw(rl *RawLink, p *simnet.Pipe, n int) {
	cutAt := -1
	if p == rl.Link.B2A {
		cutAt = rl.FC.cutAtDeliv
	} else {
		cutAt = rl.CutA2BAt
	}
	if cutAt >= 0 && p.Delivered+n > cutAt {
		n = cutAt - p.Delivered
	}
	if n > 0 {
		p.Deliver(n)
	}
	if cutAt >= 0 && p.Delivered >= cutAt && !p.Broken() {
		if p == rl.Link.B2A {
			rl.FC.cutAtDeliv = -1
		} else {
			rl.CutA2BAt = -1
		}
		w.ev(&Ev{K: EvFault, C: rl.Idx, S: "cut after the packet was delivered"})
		rl.Link.Cut()
	}
}

// DialIn creates a link, gives its B end to the engine and returns it; the
// caller wraps Link.A (a net.Conn) for the client side.
func (w *World) DialIn() *RawLink {
	idx := len(w.Peers) + len(w.Raw) + 1000
	link := simnet.NewLink(idx)
	fc := &faultConn{Conn: transport.NewNetConn(link.B), w: w, idx: idx, link: link, cutAtDeliv: -1}
	rl := &RawLink{Idx: idx, Link: link, FC: fc, CutA2BAt: -1}
	w.Raw = append(w.Raw, rl)
	if w.Server.done {
		_ = fc.Close()
	} else {
		w.Server.ch <- fc
	}
	return rl
}

// NetActions lists one closure per link direction that has something to move.
func (w *World) NetActions() []func() {
	var out []func()
	for _, pr := range w.Peers[1:] {
		pr := pr
		if n := pr.Link.A2B.InFlight(); n > 0 && !pr.Link.A2B.Broken() {
			out = append(out, func() { w.deliverToBroker(pr, w.chunk(n)) })
		}
		if n := pr.Link.B2A.InFlight(); n > 0 && !pr.Link.B2A.Broken() && !pr.Stalled {
			out = append(out, func() { w.deliverToPeer(pr, w.chunk(n)) })
		}
		if pr.Link.A2B.FinPending() {
			out = append(out, func() { pr.Link.A2B.DeliverFIN() })
		}
		if pr.Link.B2A.FinPending() {
			out = append(out, func() { pr.Link.B2A.DeliverFIN() })
		}
	}
	for _, rl := range w.Raw {
		rl := rl
		for _, p := range []*simnet.Pipe{rl.Link.A2B, rl.Link.B2A} {
			p := p
			if w.rawPending(rl, p) {
				out = append(out, func() { w.deliverRaw(rl, p, w.chunk(p.InFlight())) })
			}
			if p.FinPending() {
				out = append(out, func() { p.DeliverFIN() })
			}
		}
	}
	return out
}

/* ---------- stepping ---------- */

func wait() { synctest.Wait() }

func (w *World) chunk(n int) int {
	if n > 2048 {
		// framing under fragmentation is C03's subject; large payloads move in
		// big pieces so that runs stay short
		return n - 1024
	}
	switch {
	case w.Cfg.Chunk > 0 && n > w.Cfg.Chunk:
		return w.Cfg.Chunk
	case w.Cfg.Chunk < 0 && n > 1:
		if w.Sched.Chance(1, 2) {
			return 1 + w.Sched.Intn(n)
		}
	}
	return n
}

// deliver moves bytes of one direction of one link and applies armed cuts.
func (w *World) deliverToBroker(p *Peer, n int) {
	if p.cutAtDeliv >= 0 && p.Link.A2B.Delivered+n > p.cutAtDeliv {
		n = p.cutAtDeliv - p.Link.A2B.Delivered
	}
	if n > 0 {
		p.Link.A2B.Deliver(n)
	}
	if p.cutAtDeliv >= 0 && p.Link.A2B.Delivered >= p.cutAtDeliv && !p.Link.A2B.Broken() {
		w.ev(&Ev{K: EvFault, C: p.Idx, S: "cut after peer packet was delivered", N: p.CutAfterN})
		w.Res.Count("fault_cut_after_recv", 1)
		p.cutAtDeliv = -1
		p.Link.Cut()
	}
}

func (w *World) deliverToPeer(p *Peer, n int) {
	fc := p.FC
	if fc.cutAtDeliv >= 0 && p.Link.B2A.Delivered+n > fc.cutAtDeliv {
		n = fc.cutAtDeliv - p.Link.B2A.Delivered
	}
	if n > 0 {
		p.Link.B2A.Deliver(n)
	}
	if fc.cutAtDeliv >= 0 && p.Link.B2A.Delivered >= fc.cutAtDeliv && !p.Link.B2A.Broken() {
		fc.cutAtDeliv = -1
		p.Link.Cut()
	}
}

// ShortHorizon is how far Settle lets the clock run by itself: far enough for
// every write-delay flush timer, not far enough for any protocol timeout.
func (w *World) shortHorizon() time.Duration { return w.Cfg.WriteDelay + 2*time.Millisecond }

// progress performs every enabled low-level action once (deliveries, FINs,
// prompt peer reactions happen inside deliveries, parked calls, late acks if
// asked). It reports whether anything happened.
func (w *World) progress(releaseAcks bool) bool {
	did := false
	for _, p := range w.Peers[1:] {
		if n := p.Link.A2B.InFlight(); n > 0 && !p.Link.A2B.Broken() {
			w.deliverToBroker(p, w.chunk(n))
			did = true
		} else if p.cutAtDeliv >= 0 && p.Link.A2B.Delivered >= p.cutAtDeliv {
			w.deliverToBroker(p, 0)
			did = true
		}
		if p.Link.A2B.FinPending() {
			p.Link.A2B.DeliverFIN()
			did = true
		}
		if n := p.Link.B2A.InFlight(); n > 0 && !p.Link.B2A.Broken() && !p.Stalled {
			w.deliverToPeer(p, w.chunk(n))
			did = true
		} else if p.FC.cutAtDeliv >= 0 && p.Link.B2A.Delivered >= p.FC.cutAtDeliv {
			w.deliverToPeer(p, 0)
			did = true
		}
		if p.Link.B2A.FinPending() {
			p.Link.B2A.DeliverFIN()
			did = true
		}
	}
	for _, rl := range w.Raw {
		for _, p := range []*simnet.Pipe{rl.Link.A2B, rl.Link.B2A} {
			if w.rawPending(rl, p) {
				w.deliverRaw(rl, p, w.chunk(p.InFlight()))
				did = true
			}
			if p.FinPending() {
				p.DeliverFIN()
				did = true
			}
		}
	}
	if len(w.parked) > 0 {
		pk := w.parked[0]
		w.parked = w.parked[1:]
		close(pk.ch)
		did = true
	}
	if core.ParkedCount() > 0 && (!did || w.Sched.Chance(1, 4)) {
		// goroutines parked at lock sites stay parked while anything else can
		// still happen (that is the point); they are released one at a time.
		// A short timer that is about to fire (a write-delay flush) counts as
		// something else: half of the time it goes first, so that a goroutine can
		// sit between two statements while a buffered packet travels and its
		// answer comes back.
		nw := rt.NextWake()
		if d := time.Duration(nw - time.Now().UnixNano()); !did && nw != 0 && d <= w.shortHorizon() && w.Sched.Chance(1, 2) {
			if d < 0 {
				d = 0
			}
			time.Sleep(d)
			did = true
		} else if core.ReleaseParked(w.Sched) {
			did = true
		}
	}
	if releaseAcks && len(w.lateAcks) > 0 {
		k := 0
		if w.Cfg.AckMode == 3 && len(w.lateAcks) > 1 {
			// late and in no particular order (another goroutine of the backend)
			k = w.Sched.Intn(len(w.lateAcks))
			if k > 0 {
				w.Res.Count("acks_released_out_of_order", 1)
			}
		}
		la := w.lateAcks[k]
		w.lateAcks = append(w.lateAcks[:k:k], w.lateAcks[k+1:]...)
		w.ev(&Ev{K: EvAckRel, C: la.c, Call: la.call, M: la.msg, S: "late"})
		la.fn()
		did = true
	}
	return did
}

// SettleNoAcks is Settle without releasing late backend acknowledgements.
func (w *World) SettleNoAcks() { w.settle(false) }

// AdvanceRaw lets virtual time pass without settling afterwards.
func (w *World) AdvanceRaw(d time.Duration) {
	w.Note("advance-raw %v", d)
	time.Sleep(d)
}

// Settle runs the system to quiescence: everything in flight is delivered,
// write-delay timers fire, parked calls are released. Protocol timers
// (keep-alive, token, kill, connect timeouts) do not fire.
func (w *World) Settle() { w.settle(true) }

func (w *World) settle(acks bool) {
	for i := 0; i < 100000; i++ {
		wait()
		w.Steps++
		if w.progress(acks) {
			continue
		}
		nw := rt.NextWake()
		if nw != 0 {
			d := time.Duration(nw - time.Now().UnixNano())
			if d <= w.shortHorizon() {
				if d < 0 {
					d = 0
				}
				time.Sleep(d)
				continue
			}
		}
		return
	}
	w.Res.Violate(w.Res.Check, w.Res.Check+".livelock", "settle", "the system did not become quiescent within 100000 steps")
}

// Nudge performs up to n rounds of low-level progress without running to
// quiescence and without releasing parked backend calls in order: parked calls
// are released in seeded order, one per round.
func (w *World) Nudge(n int) {
	for i := 0; i < n; i++ {
		wait()
		w.Steps++
		for _, p := range w.Peers[1:] {
			if k := p.Link.A2B.InFlight(); k > 0 && !p.Link.A2B.Broken() && w.Sched.Chance(2, 3) {
				w.deliverToBroker(p, w.chunk(k))
			}
			if k := p.Link.B2A.InFlight(); k > 0 && !p.Link.B2A.Broken() && !p.Stalled && w.Sched.Chance(2, 3) {
				w.deliverToPeer(p, w.chunk(k))
			}
		}
		if core.ParkedCount() > 0 && w.Sched.Chance(1, 3) {
			core.ReleaseParked(w.Sched)
		}
		if len(w.parked) > 0 && w.Sched.Chance(1, 2) {
			j := w.Sched.Intn(len(w.parked))
			pk := w.parked[j]
			w.parked = append(w.parked[:j], w.parked[j+1:]...)
			close(pk.ch)
		}
	}
	wait()
}

// Advance lets virtual time pass (all timers that become due fire), then settles.
func (w *World) Advance(d time.Duration) {
	w.Note("advance %v", d)
	time.Sleep(d)
	w.Settle()
}

// Teardown ends everything and takes the goroutine census.
func (w *World) Teardown() []string {
	w.Res.Count("lock_site_parks", int64(core.ParkTotal()))
	core.ParkStop()
	for _, p := range w.Peers[1:] {
		if !p.EOF {
			p.Link.Cut()
		}
	}
	for _, rl := range w.Raw {
		rl.Link.Cut()
	}
	w.Settle()
	w.Backend.Close(time.Second)
	w.Settle()
	_ = w.Server.Close()
	// in a goroutine: an Engine.Close that never returns shows up in the census
	// below with its stack instead of hanging the driver
	go w.Engine.Close()
	time.Sleep(time.Hour)
	w.Settle()
	return core.Leaked()
}

var _ = io.EOF
