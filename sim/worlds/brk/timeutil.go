package brk

import "time"

func nowNano() int64 { return time.Now().UnixNano() }

func sleepNano(d int64) { time.Sleep(time.Duration(d)) }
