package brk

import (
	"fmt"
	"testing"
	"time"

	"github.com/256dpi/gomqtt/packet"

	"verif/sim/core"
	"verif/sim/rt"
)

// C16: the inflight window is respected and delivery keeps flowing while
// acknowledgements flow; QoS 0 deliveries occupy no window slots.

func init() {
	core.Register(&core.Check{ID: "C16", Expand: expandC16, Run: runC16})
}

func expandC16(_ *testing.T, seed uint64, tier string) []*core.Plan {
	r := core.NewRand(core.Derive(seed, "plan"))
	p := &core.Plan{Check: "C16", Seed: seed}
	win := r.Range(1, 10)
	p.SetKnob("window", win)
	p.SetKnob("chunk", r.Pick(0, 0, -1, 1))
	p.SetKnob("queue", r.Pick(100, 100, 30))
	p.SetKnob("subqos", r.Pick(1, 2, 2))
	p.Yield = r.Pick(0, 0, 3, 8)
	p.SetKnob("park", r.Pick(0, 0, 3, 6))
	n := r.Range(1, 20*win)
	if tier != "thorough" && n > 60 {
		n = r.Range(10, 60)
	}
	if seed%5 == 0 {
		// QoS 0 only, the subscriber never acknowledges anything
		p.SetKnob("qos0only", 1)
		for i := 1; i <= n; i++ {
			p.Items = append(p.Items, core.Item{K: "pub", A: 0, D: i})
			if r.Chance(1, 6) {
				p.Items = append(p.Items, core.Item{K: "settle"})
			}
		}
		return []*core.Plan{p}
	}
	policy := r.Intn(6) // 0 immediate, 1 batched, 2 rare, 3 out of order, 4 reconnects in between, 5 immediate first then reconnects with batched acknowledgements
	p.SetKnob("policy", policy)
	for i := 1; i <= n; i++ {
		p.Items = append(p.Items, core.Item{K: "pub", A: r.Pick(0, 1, 1, 2, 2), D: i})
		switch policy {
		case 1:
			if r.Chance(1, 4) {
				p.Items = append(p.Items, core.Item{K: "ack", A: r.Range(1, win)})
			}
		case 2:
			if r.Chance(1, 10) {
				p.Items = append(p.Items, core.Item{K: "ack"})
			}
		case 3:
			if r.Chance(1, 4) {
				p.Items = append(p.Items, core.Item{K: "ackrev"})
			}
		case 4, 5:
			if r.Chance(1, 6) {
				p.Items = append(p.Items, core.Item{K: "ack", A: r.Range(1, win)})
			}
			if r.Chance(1, 8) {
				p.Items = append(p.Items, core.Item{K: "reconnect"})
			}
		}
		if r.Chance(1, 5) {
			p.Items = append(p.Items, core.Item{K: "settle"})
		}
		if r.Chance(1, 25) {
			// the connection grows older than the token timeout while everything
			// is acknowledged; afterwards the window fills again
			p.Items = append(p.Items, core.Item{K: "idle", A: r.Pick(2500, 5000)})
		}
	}
	return []*core.Plan{p}
}

func runC16(t *testing.T, p *core.Plan) *core.Result {
	res := &core.Result{Check: "C16", Seed: p.Seed}
	cfg := DefaultConfig()
	cfg.Chunk = p.Knob("chunk", 0)
	cfg.Inflight = p.Knob("window", 10)
	cfg.QueueSize = p.Knob("queue", 100)
	if (p.Knob("policy", 0) >= 4 || p.Seed%2 == 0) && cfg.QueueSize < len(p.Items)+10 {
		// a publish that waits for room while the subscriber drops is discarded
		// when the queue is still full (capacity, not a window matter)
		cfg.QueueSize = len(p.Items) + 10
	}
	cfg.ParPublishes = 64
	cfg.TokenTimeout = 2 * time.Second
	cfg.ParkN = p.Knob("park", 0)
	win := cfg.Inflight
	q0 := p.Knob("qos0only", 0) == 1
	policy := p.Knob("policy", 0)
	var w *World
	ptxt := core.Bubble(t, p.Seed, p.Yield, func() {
		w = NewWorld(cfg, p.Seed, res)
		src := w.NewPeer("src")
		c := packet.NewConnect()
		c.ClientID, c.CleanSession = "src", true
		src.Send(c)
		var conns []*Peer
		connect := func() *Peer {
			pr := w.NewPeer("sub")
			pr.AckMode = 1
			if (policy == 0 || (policy == 5 && len(conns) == 0)) && !q0 {
				pr.AckMode = 0
			}
			cc := packet.NewConnect()
			cc.ClientID, cc.CleanSession = "sub", false
			pr.Send(cc)
			conns = append(conns, pr)
			return pr
		}
		sub := connect()
		sp := packet.NewSubscribe()
		sp.ID = sub.NextID()
		sp.Subscriptions = []packet.Subscription{{Topic: "t/#", QOS: packet.QOS(p.Knob("subqos", 1))}}
		sub.Send(sp)
		w.Settle()
		sentQ := map[int]int{}
		for _, it := range p.Items {
			switch it.K {
			case "pub":
				pb := packet.NewPublish()
				pb.Message = packet.Message{Topic: "t/s", QOS: packet.QOS(it.A), Payload: MsgPayload(it.D, 0)}
				if it.A > 0 {
					pb.ID = src.NextID()
				}
				sentQ[it.D] = it.A
				src.Send(pb)
				w.Nudge(1)
			case "ack":
				n := it.A
				for (n > 0 || it.A == 0) && len(sub.Pending) > 0 {
					x := sub.Pending[0]
					sub.Pending = sub.Pending[1:]
					sub.Send(x)
					n--
				}
				w.Nudge(1)
			case "ackrev":
				for i := len(sub.Pending) - 1; i >= 0; i-- {
					sub.Send(sub.Pending[i])
				}
				sub.Pending = nil
				w.Nudge(1)
			case "reconnect":
				w.Settle()
				sub.Drop()
				w.Settle()
				sub = connect()
				w.Settle()
			case "settle":
				w.Settle()
			case "idle":
				// acknowledge everything first: an unacknowledged full window that
				// lasts longer than the token timeout is a legitimate death
				for round := 0; round < 400 && (len(sub.Pending) > 0 || round == 0); round++ {
					pend := sub.Pending
					sub.Pending = nil
					for _, x := range pend {
						sub.Send(x)
					}
					w.Settle()
				}
				w.Advance(time.Duration(it.A) * time.Millisecond)
				res.Count("idle_longer_than_token_timeout", 1)
			}
		}
		w.Settle()
		if !q0 && p.Seed%2 == 0 {
			// one more resume with the acknowledgements withheld: what the broker
			// retransmits is in flight all at once ("retransmissions after a
			// resume included")
			sub.Drop()
			w.Settle()
			sub = connect()
			sub.AckMode = 1
			w.Settle()
			res.Count("final_resumes_with_withheld_acks", 1)
		}
		// faults have stopped: the subscriber acknowledges everything promptly
		if !q0 {
			for round := 0; round < 3*len(p.Items)+10; round++ {
				if len(sub.Pending) == 0 {
					break
				}
				pend := sub.Pending
				sub.Pending = nil
				for _, x := range pend {
					sub.Send(x)
				}
				w.Settle()
			}
			sub.AckMode = 0
			w.Settle()
			if p.Seed%3 == 0 && !sub.EOF {
				// every handshake has completed: the whole window must be usable
				// again ("window slots are returned by every completed handshake and
				// are not lost over time or across reconnects"). The subscriber
				// withholds acknowledgements, win+2 fresh messages are published:
				// exactly win of them must be in flight.
				sub.AckMode = 1
				before := len(sub.Recv)
				for i := 0; i < win+2; i++ {
					pb := packet.NewPublish()
					pb.ID = src.NextID()
					pb.Message = packet.Message{Topic: "t/s", QOS: 1, Payload: MsgPayload(7000+i, 0)}
					sentQ[7000+i] = 1
					src.Send(pb)
				}
				w.Settle()
				got := 0
				for _, e := range sub.Recv[before:] {
					if q, ok := e.P.(*packet.Publish); ok && q.Message.QOS > 0 {
						got++
					}
				}
				res.Count("window_capacity_probes", 1)
				if got < win && !sub.EOF {
					res.Violate("C16", "C16.window-restored", "slots-lost", fmt.Sprintf("after every handshake had completed only %d of the %d window slots could be filled again (%d connections in this run)", got, win, len(conns)))
				}
				for round := 0; round < win+6 && len(sub.Pending) > 0; round++ {
					pend := sub.Pending
					sub.Pending = nil
					for _, x := range pend {
						sub.Send(x)
					}
					w.Settle()
				}
				sub.AckMode = 0
				w.Settle()
			}
		}
		judgeC16(w, conns, sentQ, win, q0, p, res)
		if leaks := w.Teardown(); len(leaks) > 0 {
			res.Violate("C16", "C16.leak", leaks[0], fmt.Sprintf("%d goroutines still alive after teardown: %v", len(leaks), leaks))
		}
		res.Yields = rt.Yields()
		res.SimNanos = int64(core.SimNow())
	})
	if ptxt != "" {
		res.Violate("C16", "C16.panic", "bubble", ptxt)
	}
	if w != nil {
		res.Hash, res.Events, res.Steps = w.Log.Hash(), w.Log.N, w.Steps
		res.Sched = w.Log.Hash()
	}
	if p.Seed%71 == 0 {
		res.Sample = p.Brief(12)
	}
	return res
}

func judgeC16(w *World, conns []*Peer, sentQ map[int]int, win int, q0 bool, p *core.Plan, res *core.Result) {
	isSub := map[int]bool{}
	for _, c := range conns {
		isSub[c.Idx] = true
	}
	// window invariant, evaluated at every packet the subscriber receives:
	// (QoS>0 PUBLISH received on this connection, retransmissions included)
	// - (handshakes this connection completed by sending PUBACK/PUBCOMP) <= window
	maxOut := 0
	received := map[int]int{}
	completed := map[int]bool{}
	flow := map[packet.ID]int{} // per session: packet id -> message tag of the open handshake
	for _, c := range conns {
		out := 0
		counted := map[packet.ID]bool{}
		for _, e := range w.Hist {
			if e.C != c.Idx {
				continue
			}
			switch e.K {
			case EvPeerRecv:
				if q, ok := e.P.(*packet.Publish); ok {
					tag := TagOf(q.Message.Payload)
					received[tag]++
					if q.Message.QOS == 0 {
						completed[tag] = true
						break
					}
					flow[q.ID] = tag
					counted[q.ID] = true
					out++
					if out > maxOut {
						maxOut = out
					}
					if out > win {
						res.Violate("C16", "C16.window", "exceeded", fmt.Sprintf("the subscriber holds %d QoS>0 messages it has not acknowledged (window %d) when %s arrives at event %d", out, win, pktBrief(q), e.Seq))
					}
				}
				if q, ok := e.P.(*packet.Pubrel); ok && !counted[q.ID] {
					// a retransmitted PUBREL occupies a window slot like a PUBLISH
					counted[q.ID] = true
					out++
					if out > win {
						res.Violate("C16", "C16.window", "exceeded", fmt.Sprintf("the subscriber holds %d open handshakes (window %d) when PUBREL(%d) arrives at event %d", out, win, q.ID, e.Seq))
					}
				}
			case EvPeerSend:
				switch q := e.P.(type) {
				case *packet.Puback:
					if counted[q.ID] {
						out--
						delete(counted, q.ID)
					}
					completed[flow[q.ID]] = true
				case *packet.Pubcomp:
					if counted[q.ID] {
						out--
						delete(counted, q.ID)
					}
					completed[flow[q.ID]] = true
				}
			}
		}
	}
	// liveness once acknowledgements flow: everything queued arrives
	last := conns[len(conns)-1]
	missing, stuck := 0, 0
	accepted := map[int]bool{}
	for _, c := range BackendCalls(w.Hist) {
		if c.Call == "Publish" && c.Err == nil && c.M != nil && !isSub[c.C] {
			accepted[TagOf(c.M.Payload)] = true
		}
	}
	if !last.EOF {
		for tag, q := range sentQ {
			if !accepted[tag] {
				continue
			}
			if q == 0 && len(conns) > 1 {
				continue // QoS 0 messages are not kept across reconnects
			}
			if received[tag] == 0 {
				missing++
			} else if !completed[tag] {
				stuck++
			}
		}
		if missing > 0 {
			rule, key := "C16.progress", "not-delivered"
			if q0 {
				rule, key = "C16.qos0-flow", "not-delivered"
			}
			res.Violate("C16", rule, key, fmt.Sprintf("%d of %d accepted messages never reached the subscriber although it acknowledges everything it receives (window %d, %d connections)", missing, len(sentQ), win, len(conns)))
		}
		if stuck > 0 {
			res.Violate("C16", "C16.progress", "not-completed", fmt.Sprintf("%d messages reached the subscriber but their handshakes never completed", stuck))
		}
	} else {
		res.Violate("C16", "C16.progress", "subscriber-killed", "the subscriber's final connection was closed by the broker although it acknowledges everything")
	}
	res.Count("messages", int64(len(sentQ)))
	res.Count("max_outstanding_seen", int64(maxOut))
	if maxOut == win {
		res.Count("window_filled", 1)
	}
	if q0 {
		res.Count("qos0_streams", 1)
	}
	res.Count("reconnects", int64(len(conns)-1))
	res.Nontrivial = len(sentQ) >= 2
	res.State = fmt.Sprintf("w%d/%d/%d", win, maxOut, len(conns))
}
