package brk

import (
	"fmt"
	"sort"
	"strings"
	"testing"

	"github.com/256dpi/gomqtt/packet"

	"verif/sim/core"
	"verif/sim/model"
	"verif/sim/rt"
)

// C06: the broker delivers to exactly the matching subscribers - once, intact,
// QoS-capped. Strict mode: a sequential reference broker predicts, after every
// plan item at quiescence, exactly what every peer must have received.
// Concurrent mode: all peers act without waiting; deliveries are judged against
// may/must sets derived from the intervals of the calls seen at the Backend seam.

func init() {
	core.Register(&core.Check{ID: "C06", Expand: expandC06, Run: runC06})
}

func genSub(r *core.Rand, slot int) core.Item {
	n := r.Pick(1, 1, 2, 2, 3, 4)
	it := core.Item{K: "sub", P: slot}
	used := map[int]bool{}
	for i := 0; i < n; i++ {
		f := r.Intn(len(Filters))
		if used[f] {
			continue
		}
		used[f] = true
		it.L = append(it.L, f, r.Intn(3))
	}
	return it
}

func genPub(r *core.Rand, slot int, tag *int, tier string) core.Item {
	*tag++
	size := r.Pick(0, 0, 5, 20, 100)
	if r.Chance(1, 25) {
		size = r.Pick(4000, 5000, 20000, 65536)
	}
	return core.Item{K: "pub", P: slot, S: Topics[r.Intn(len(Topics))], A: r.Intn(3), C: size, D: *tag}
}

func expandC06(_ *testing.T, seed uint64, tier string) []*core.Plan {
	r := core.NewRand(core.Derive(seed, "plan"))
	p := &core.Plan{Check: "C06", Seed: seed}
	conc := seed%2 == 1
	p.SetKnob("conc", b2i(conc))
	nslots := r.Range(1, 6)
	p.SetKnob("chunk", r.Pick(0, 0, -1, 1, 7))
	tag := 0
	n := r.Range(3, 30)
	if tier == "thorough" && r.Chance(1, 5) {
		n = r.Range(30, 100)
	}
	connected := map[int]bool{}
	if conc {
		// clean sessions with distinct ids, no reconnects: a connection is a session
		p.Yield = r.Pick(0, 0, 4, 16)
		p.SetKnob("queue", r.Pick(100, 100, 100, 20))
		p.SetKnob("inflight", r.Pick(10, 10, 3, 1))
		p.SetKnob("gate", r.Pick(0, 0, 1))
		p.SetKnob("park", r.Pick(0, 0, 3, 8))
		p.SetKnob("pace", r.Pick(6, 6, 1)) // weight of issuing the next item: low = the system progresses between items
		for s := 1; s <= nslots; s++ {
			p.Items = append(p.Items, core.Item{K: "connect", P: s, S: fmt.Sprintf("c%d", s), A: 1})
			connected[s] = true
		}
		for i := 0; i < n; i++ {
			s := 1 + r.Intn(nslots)
			switch r.Weighted([]int{5, 2, 8}) {
			case 0:
				p.Items = append(p.Items, genSub(r, s))
			case 1:
				p.Items = append(p.Items, core.Item{K: "unsub", P: s, L: []int{r.Intn(len(Filters))}})
			case 2:
				p.Items = append(p.Items, genPub(r, s, &tag, tier))
			}
		}
		return []*core.Plan{p}
	}
	ids := []string{"", "x", "y", "z", "x"}
	for i := 0; i < n; i++ {
		s := 1 + r.Intn(nslots)
		if !connected[s] {
			cid := ids[r.Intn(len(ids))]
			clean := r.Chance(1, 2)
			if cid == "" {
				clean = true
			}
			p.Items = append(p.Items, core.Item{K: "connect", P: s, S: cid, A: b2i(clean)})
			connected[s] = true
			continue
		}
		switch r.Weighted([]int{6, 2, 10, 1, 1, 1}) {
		case 0:
			p.Items = append(p.Items, genSub(r, s))
		case 1:
			it := core.Item{K: "unsub", P: s, L: []int{r.Intn(len(Filters))}}
			if r.Chance(1, 3) {
				it.L = append(it.L, r.Intn(len(Filters)))
			}
			p.Items = append(p.Items, it)
		case 2:
			p.Items = append(p.Items, genPub(r, s, &tag, tier))
		case 3:
			p.Items = append(p.Items, core.Item{K: "disconnect", P: s})
			connected[s] = false
		case 4:
			p.Items = append(p.Items, core.Item{K: "drop", P: s})
			connected[s] = false
		case 5:
			p.Items = append(p.Items, core.Item{K: "close", P: s})
			connected[s] = false
		}
	}
	return []*core.Plan{p}
}

func b2i(b bool) int {
	if b {
		return 1
	}
	return 0
}

/* ---------- sequential reference broker ---------- */

type mSession struct {
	cid    string
	subs   map[string]int
	stored bool
	queue  []expect // offline queue (QoS>0 publishes)
}

type expect struct {
	tag      int
	topic    string
	payload  string
	qos      map[int]bool
	optional bool
	retain   bool
}

type retMsg struct {
	tag     int
	payload string
	qos     int
}

type willMsg struct {
	topic   string
	payload string
	tag     int
	qos     int
	retain  bool
}

type refBroker struct {
	sessions map[string]*mSession // stored sessions by client id
	bySlot   map[int]*mSession    // session of the connection in each slot
	live     map[int]bool
	retained map[string]retMsg
	wills    map[int]*willMsg // will of the live connection in each slot
}

func newRefBroker() *refBroker {
	return &refBroker{sessions: map[string]*mSession{}, bySlot: map[int]*mSession{}, live: map[int]bool{},
		retained: map[string]retMsg{}, wills: map[int]*willMsg{}}
}

// publish applies one application message to the model: retained store, live
// fan-out (expectations are appended to pending), offline queues.
func (rb *refBroker) publish(sl *Slots, pending map[*Peer][]expect, topic string, qos int, retain bool, payload string, tag int) {
	if retain {
		if len(payload) > 0 {
			rb.retained[topic] = retMsg{tag: tag, payload: payload, qos: qos}
		} else {
			delete(rb.retained, topic)
		}
	}
	seen := map[*mSession]bool{}
	for s, ms := range rb.bySlot {
		if !rb.live[s] || seen[ms] {
			continue
		}
		cs := capSet(qos, ms, topic)
		if len(cs) == 0 {
			continue
		}
		seen[ms] = true
		pending[sl.Cur[s]] = append(pending[sl.Cur[s]], expect{tag: tag, topic: topic, payload: payload, qos: cs})
	}
	for _, ms := range rb.sessions {
		if seen[ms] {
			continue
		}
		live := false
		for s, m2 := range rb.bySlot {
			if m2 == ms && rb.live[s] {
				live = true
			}
		}
		if live {
			continue
		}
		cs := capSet(qos, ms, topic)
		if len(cs) == 0 || qos == 0 {
			continue // QoS 0 publishes are not kept for offline sessions
		}
		opt := true
		for q := range cs {
			if q > 0 {
				opt = false
			}
		}
		ms.queue = append(ms.queue, expect{tag: tag, topic: topic, payload: payload, qos: map[int]bool{qos: true}, optional: opt})
	}
}

// end ends the live connection of a slot; abnormal endings publish the will.
func (rb *refBroker) end(sl *Slots, pending map[*Peer][]expect, slot int, clean bool) {
	if !rb.live[slot] {
		return
	}
	rb.live[slot] = false
	wl := rb.wills[slot]
	delete(rb.wills, slot)
	if ms := rb.bySlot[slot]; ms != nil && !ms.stored {
		delete(rb.bySlot, slot)
	}
	if wl != nil && !clean {
		rb.publish(sl, pending, wl.topic, wl.qos, wl.retain, wl.payload, wl.tag)
	}
}

// capSet is the set of admissible delivery QoS values.
func capSet(pubQoS int, s *mSession, topic string) map[int]bool {
	out := map[int]bool{}
	for f, q := range s.subs {
		if model.Matches(f, topic) {
			m := pubQoS
			if q < m {
				m = q
			}
			out[m] = true
		}
	}
	return out
}

func runC06(t *testing.T, p *core.Plan) *core.Result {
	res := &core.Result{Check: "C06", Seed: p.Seed}
	cfg := DefaultConfig()
	cfg.Chunk = p.Knob("chunk", 0)
	cfg.QueueSize = p.Knob("queue", 100)
	cfg.Inflight = p.Knob("inflight", 10)
	if cfg.QueueSize < len(p.Items)+10 {
		// capacity is not this check's subject: with a session queue smaller than
		// the traffic, a publisher that waits for room in a subscriber's queue
		// holds the backend's global mutex, and if that subscriber's processor is
		// itself waiting for the mutex nobody moves until a token timeout
		// (MemoryBackend's documented limitation; C14's slow-consumer class and
		// the C13 known finding look at that regime)
		cfg.QueueSize = len(p.Items) + 10
	}
	cfg.GateBackend = p.Knob("gate", 0) == 1
	cfg.ParkN = p.Knob("park", 0)
	// pipelining more QoS 2 publishes than publish tokens stalls the connection
	// until the token timeout by design; that regime belongs to C14/C16
	cfg.ParPublishes, cfg.ParSubscribes = 128, 128
	conc := p.Knob("conc", 0) == 1
	var w *World
	ptxt := core.Bubble(t, p.Seed, p.Yield, func() {
		w = NewWorld(cfg, p.Seed, res)
		sl := NewSlots(w)
		if conc {
			runC06Concurrent(w, sl, p, res)
		} else {
			runC06Strict(w, sl, p, res)
		}
		if leaks := w.Teardown(); len(leaks) > 0 {
			res.Violate("C06", "C06.leak", leaks[0], fmt.Sprintf("%d goroutines still alive one virtual hour after teardown: %v", len(leaks), leaks))
		}
		res.Yields = rt.Yields()
		res.SimNanos = int64(core.SimNow())
	})
	if ptxt != "" {
		res.Violate("C06", "C06.panic", "bubble", ptxt)
	}
	if w != nil {
		res.Hash, res.Events, res.Steps = w.Log.Hash(), w.Log.N, w.Steps
		res.Sched = w.Log.Hash()
	}
	if p.Seed%61 == 0 {
		res.Sample = p.Brief(14)
	}
	return res
}

func runC06Strict(w *World, sl *Slots, p *core.Plan, res *core.Result) {
	runStrict(w, sl, p, res, "C06")
}

// runStrict executes the plan item by item, runs the system to quiescence
// after each and compares what every peer received with the reference broker.
func runStrict(w *World, sl *Slots, p *core.Plan, res *core.Result, prop string) {
	rb := newRefBroker()
	seenUpTo := map[*Peer]int{}
	pending := map[*Peer][]expect{} // expectations per connection since the last check
	deliveries, pubs, retainedReplays, willsPublished := 0, 0, 0, 0
	for i, it := range p.Items {
		// model first (it needs the state before the item)
		switch it.K {
		case "connect":
			// take over a live connection with the same id: it ends abnormally
			if it.S != "" {
				for s, ms := range rb.bySlot {
					if rb.live[s] && ms.cid == it.S && s != it.P {
						if rb.wills[s] != nil {
							willsPublished++
						}
						rb.end(sl, pending, s, false)
					}
				}
			}
			if rb.live[it.P] {
				continue // the slot is in use: the generator does not do this
			}
			var ms *mSession
			clean := it.A == 1
			if clean || it.S == "" {
				delete(rb.sessions, it.S)
				ms = &mSession{cid: it.S, subs: map[string]int{}}
			} else if old, ok := rb.sessions[it.S]; ok {
				ms = old
			} else {
				ms = &mSession{cid: it.S, subs: map[string]int{}, stored: true}
				rb.sessions[it.S] = ms
			}
			rb.bySlot[it.P] = ms
			rb.live[it.P] = true
		}
		ok := sl.Exec(it)
		if !ok {
			continue
		}
		cur := sl.Cur[it.P]
		switch it.K {
		case "connect":
			// queued offline messages arrive on the new connection
			ms := rb.bySlot[it.P]
			for _, e := range ms.queue {
				e.qos = capSetTag(e, ms)
				pending[cur] = append(pending[cur], e)
			}
			ms.queue = nil
			if it.C != 0 {
				wq := (it.C - 1) % 3
				wr := (it.C-1)/3%2 == 1
				topic := "will/" + fmt.Sprint(it.P)
				if len(it.L) > 0 {
					topic = Topics[it.L[0]%len(Topics)]
				}
				tg := 900000 + cur.Idx
				rb.wills[it.P] = &willMsg{topic: topic, payload: string(MsgPayload(tg, 0)), tag: tg, qos: wq, retain: wr}
				if it.C > 6 {
					rb.wills[it.P].payload, rb.wills[it.P].tag = "", -1
				}
			}
		case "sub":
			if ms := rb.bySlot[it.P]; ms != nil && rb.live[it.P] {
				for j := 0; j+1 < len(it.L); j += 2 {
					ms.subs[Filters[it.L[j]%len(Filters)]] = it.L[j+1] % 3
				}
				// retained replay: per filter of the packet, every matching retained message
				for j := 0; j+1 < len(it.L); j += 2 {
					f := Filters[it.L[j]%len(Filters)]
					for topic, rm := range rb.retained {
						if model.Matches(f, topic) {
							retainedReplays++
							pending[cur] = append(pending[cur], expect{tag: rm.tag, topic: topic, payload: rm.payload, qos: capSet(rm.qos, ms, topic), retain: true})
						}
					}
				}
			}
		case "unsub":
			if ms := rb.bySlot[it.P]; ms != nil && rb.live[it.P] {
				for _, f := range it.L {
					delete(ms.subs, Filters[f%len(Filters)])
				}
			}
		case "pub":
			if rb.live[it.P] {
				pubs++
				pl := string(MsgPayload(it.D, it.C))
				tag := it.D
				retain := it.B == 1
				if it.B == 2 {
					pl, retain, tag = "", true, -1
				}
				if it.B == 3 {
					pl, tag = "", -1
				}
				rb.publish(sl, pending, it.S, it.A%3, retain, pl, tag)
			}
		case "disconnect":
			rb.end(sl, pending, it.P, true)
		case "drop", "close":
			if rb.live[it.P] && rb.wills[it.P] != nil {
				willsPublished++
			}
			rb.end(sl, pending, it.P, false)
		}
		w.Settle()
		// quiescence oracle: exactly the predicted PUBLISH packets arrived
		for _, pr := range sl.All {
			var got []*packet.Publish
			for _, e := range pr.Recv[seenUpTo[pr]:] {
				if pb, ok := e.P.(*packet.Publish); ok {
					got = append(got, pb)
				}
			}
			seenUpTo[pr] = len(pr.Recv)
			exp := pending[pr]
			pending[pr] = nil
			deliveries += len(got)
			judgeExact(res, prop, pr, got, exp, fmt.Sprintf("after item %d (%s)", i, it.String()))
		}
	}
	res.Nontrivial = deliveries >= 1 && pubs >= 2
	res.Count("publishes", int64(pubs))
	res.Count("deliveries", int64(deliveries))
	res.Count("retained_replays_expected", int64(retainedReplays))
	res.Count("wills_expected", int64(willsPublished))
	res.State = fmt.Sprintf("%d/%d/%d", len(rb.sessions), deliveries, len(rb.retained))
}

// capSetTag recomputes the admissible QoS of a queued message at dequeue time.
func capSetTag(e expect, ms *mSession) map[int]bool {
	pq := 0
	for q := range e.qos {
		pq = q
	}
	cs := capSet(pq, ms, e.topic)
	if len(cs) == 0 {
		// the subscription disappeared while the message was queued: nothing
		// above the lowest level may be delivered (the client holds no grant)
		return map[int]bool{0: true}
	}
	return cs
}

// judgeExact compares received PUBLISH packets with the expectations.
func judgeExact(res *core.Result, prop string, pr *Peer, got []*packet.Publish, exp []expect, ctx string) {
	used := make([]bool, len(exp))
	for _, g := range got {
		tag := TagOf(g.Message.Payload)
		found := -1
		for i, e := range exp {
			if !used[i] && e.tag == tag && (tag >= 0 || e.topic == g.Message.Topic && len(g.Message.Payload) == 0) {
				found = i
				break
			}
		}
		if found < 0 {
			res.Violate(prop, prop+".unexpected-delivery", "extra", fmt.Sprintf("peer %d (%q) received %s which the reference broker does not predict (%s); expected %s", pr.Idx, pr.CID, pktBrief(g), ctx, expStr(exp)))
			continue
		}
		e := exp[found]
		used[found] = true
		if g.Message.Topic != e.topic || string(g.Message.Payload) != e.payload {
			res.Violate(prop, prop+".intact", "content", fmt.Sprintf("peer %d received %s, published as topic %q payload %q (%s)", pr.Idx, pktBrief(g), e.topic, payloadTag([]byte(e.payload)), ctx))
		}
		if g.Message.Retain != e.retain {
			res.Violate(prop, prop+".retain-flag", fmt.Sprint(g.Message.Retain), fmt.Sprintf("peer %d received %s with retain=%v, expected %v (%s)", pr.Idx, pktBrief(g), g.Message.Retain, e.retain, ctx))
		}
		if !e.qos[int(g.Message.QOS)] {
			res.Violate(prop, prop+".qos-cap", fmt.Sprintf("got%d", g.Message.QOS), fmt.Sprintf("peer %d received %s at QoS %d, admissible %v (%s)", pr.Idx, pktBrief(g), g.Message.QOS, keys(e.qos), ctx))
		}
		if g.Dup {
			res.Violate(prop, prop+".dup-flag", "first", fmt.Sprintf("peer %d received a first delivery flagged DUP: %s (%s)", pr.Idx, pktBrief(g), ctx))
		}
	}
	for i, e := range exp {
		if !used[i] && !e.optional && !pr.EOF {
			res.Violate(prop, prop+".missing-delivery", "missing", fmt.Sprintf("peer %d (%q) did not receive message #%d on %q predicted by the reference broker (%s); got %d publishes", pr.Idx, pr.CID, e.tag, e.topic, ctx, len(got)))
		}
	}
}

func keys(m map[int]bool) []int {
	var l []int
	for k := range m {
		l = append(l, k)
	}
	sort.Ints(l)
	return l
}

func expStr(exp []expect) string {
	var l []string
	for _, e := range exp {
		l = append(l, fmt.Sprintf("#%d@%s%v", e.tag, e.topic, keys(e.qos)))
	}
	return "[" + strings.Join(l, " ") + "]"
}

/* ---------- concurrent mode ---------- */

func runC06Concurrent(w *World, sl *Slots, p *core.Plan, res *core.Result) {
	next := 0
	pace := p.Knob("pace", 6)
	for steps := 0; steps < 20000; steps++ {
		wait()
		w.Steps++
		var acts []string
		var wt []int
		if next < len(p.Items) {
			acts, wt = append(acts, "item"), append(wt, pace)
		}
		if len(w.parked) > 0 {
			acts, wt = append(acts, "gate"), append(wt, 5)
		}
		if core.ParkedCount() > 0 {
			acts, wt = append(acts, "unpark"), append(wt, 2)
		}
		inflight := false
		for _, pr := range w.Peers[1:] {
			if pr.Link.A2B.InFlight() > 0 || pr.Link.B2A.InFlight() > 0 {
				inflight = true
			}
		}
		if inflight {
			acts, wt = append(acts, "net"), append(wt, 8)
		}
		if rt.NextWake() != 0 {
			acts, wt = append(acts, "timer"), append(wt, 2)
		}
		if next >= len(p.Items) {
			break
		}
		switch acts[w.Sched.Weighted(wt)] {
		case "item":
			sl.Exec(p.Items[next])
			next++
		case "gate":
			i := w.Sched.Intn(len(w.parked))
			pk := w.parked[i]
			w.parked = append(w.parked[:i], w.parked[i+1:]...)
			close(pk.ch)
		case "unpark":
			core.ReleaseParked(w.Sched)
		case "net":
			// one random direction of one random link
			var c []func()
			for _, pr := range w.Peers[1:] {
				pr := pr
				if n := pr.Link.A2B.InFlight(); n > 0 {
					c = append(c, func() { w.deliverToBroker(pr, w.chunk(n)) })
				}
				if n := pr.Link.B2A.InFlight(); n > 0 {
					c = append(c, func() { w.deliverToPeer(pr, w.chunk(n)) })
				}
			}
			c[w.Sched.Intn(len(c))]()
		case "timer":
			d := rt.NextWake() - nowNano()
			if d < 0 {
				d = 0
			}
			if d > int64(w.shortHorizon()) {
				continue
			}
			sleepNano(d)
		}
	}
	w.Settle()
	judgeC06Intervals(w, sl, res)
}

type subIv struct {
	filter        string
	qos           int
	enter, commit uint64 // Subscribe entered / acknowledged inside the backend
	endEnter      uint64 // Unsubscribe / re-Subscribe / Terminate entered (0 = never)
	endReturn     uint64
}

func judgeC06Intervals(w *World, sl *Slots, res *core.Result) {
	calls := BackendCalls(w.Hist)
	subs := map[int][]*subIv{} // per connection
	term := map[int]*BkCall{}
	endIv := func(c int, f string, by *BkCall) {
		for _, iv := range subs[c] {
			if iv.filter == f && iv.endEnter == 0 {
				iv.endEnter, iv.endReturn = by.Enter, by.Return
			}
		}
	}
	for _, c := range calls {
		switch c.Call {
		case "Subscribe":
			if c.Err != nil {
				continue
			}
			for _, s := range c.P.(*packet.Subscribe).Subscriptions {
				endIv(c.C, s.Topic, c)
				subs[c.C] = append(subs[c.C], &subIv{filter: s.Topic, qos: int(s.QOS), enter: c.Enter, commit: c.Return})
			}
		case "Unsubscribe":
			for _, f := range c.P.(*packet.Unsubscribe).Topics {
				endIv(c.C, f, c)
			}
		case "Terminate":
			term[c.C] = c
			for _, iv := range subs[c.C] {
				if iv.endEnter == 0 {
					iv.endEnter, iv.endReturn = c.Enter, c.Return
				}
			}
		}
	}
	// wire-level view of unsubscriptions: the k-th Unsubscribe call of a
	// connection belongs to the k-th UNSUBSCRIBE its peer sent; the moment the
	// peer received the matching UNSUBACK is when the unsubscribe "was
	// acknowledged" in the sense of the property
	unsubAcked := map[*BkCall]uint64{}
	pubSentAt := map[int]uint64{}
	for _, pr := range sl.All {
		var unsubIDs []packet.ID
		for _, e := range pr.Sent {
			switch q := e.P.(type) {
			case *packet.Unsubscribe:
				unsubIDs = append(unsubIDs, q.ID)
			case *packet.Publish:
				pubSentAt[TagOf(q.Message.Payload)] = e.Seq
			}
		}
		k := 0
		for _, c := range calls {
			if c.Call != "Unsubscribe" || c.C != pr.Idx {
				continue
			}
			if k < len(unsubIDs) {
				for _, e := range pr.Recv {
					if ua, ok := e.P.(*packet.Unsuback); ok && ua.ID == unsubIDs[k] && e.Seq > c.Enter {
						unsubAcked[c] = e.Seq
						break
					}
				}
			}
			k++
		}
	}
	endedBy := map[*subIv]*BkCall{}
	for _, c := range calls {
		if c.Call != "Unsubscribe" {
			continue
		}
		for _, iv := range subs[c.C] {
			if iv.endEnter == c.Enter {
				endedBy[iv] = c
			}
		}
	}
	// what every peer received, by tag
	got := map[int]map[int][]*packet.Publish{}
	for _, pr := range sl.All {
		got[pr.Idx] = map[int][]*packet.Publish{}
		for _, e := range pr.Recv {
			if pb, ok := e.P.(*packet.Publish); ok {
				tg := TagOf(pb.Message.Payload)
				got[pr.Idx][tg] = append(got[pr.Idx][tg], pb)
			}
		}
	}
	pubs, deliveries, overlapping := 0, 0, 0
	explained := map[int]map[int]bool{}
	for _, c := range calls {
		if c.Call != "Publish" || c.M == nil {
			continue
		}
		pubs++
		tag := TagOf(c.M.Payload)
		for _, pr := range sl.All {
			must, may := false, false
			ackedBefore := true // every matching subscription had been unsubscribed AND acknowledged before the publish was sent
			qset := map[int]bool{}
			for _, iv := range subs[pr.Idx] {
				if !model.Matches(iv.filter, c.M.Topic) {
					continue
				}
				if u := endedBy[iv]; u == nil || unsubAcked[u] == 0 || pubSentAt[tag] == 0 || unsubAcked[u] > pubSentAt[tag] {
					ackedBefore = false
				}
				m := int(c.M.QOS)
				if iv.qos < m {
					m = iv.qos
				}
				qset[m] = true
				if iv.endEnter != 0 {
					// the subscription was removed at some point: a copy that was
					// still queued then is delivered at the lowest level
					qset[0] = true
				}
				if iv.enter < c.Return && (iv.endReturn == 0 || iv.endReturn > c.Enter) {
					may = true
				}
				if iv.commit != 0 && iv.commit < c.Enter && (iv.endEnter == 0 || iv.endEnter > c.Return) {
					must = true
				}
				if may && !must {
					overlapping++
				}
			}
			if c.Err != nil {
				// a failed fan-out (own queue full) may have reached any subset
				must = false
			}
			g := got[pr.Idx][tag]
			if len(g) > 0 {
				if explained[pr.Idx] == nil {
					explained[pr.Idx] = map[int]bool{}
				}
				explained[pr.Idx][tag] = may
			}
			deliveries += len(g)
			ctx := fmt.Sprintf("publish #%d on %q q%d by conn %d, backend interval [%d,%d]", tag, c.M.Topic, c.M.QOS, c.C, c.Enter, c.Return)
			if len(g) > 1 {
				res.Violate("C06", "C06.unexpected-delivery", "duplicate", fmt.Sprintf("peer %d received %d copies of %s", pr.Idx, len(g), ctx))
			}
			if len(g) > 0 && may && ackedBefore {
				res.Violate("C06", "C06.unexpected-delivery", "after-unsuback", fmt.Sprintf("peer %d received %s although the UNSUBACK for every matching filter had reached it before the message was even sent (subscriptions %s)", pr.Idx, ctx, ivStr(subs[pr.Idx])))
			}
			if len(g) > 0 && !may {
				res.Violate("C06", "C06.unexpected-delivery", "extra", fmt.Sprintf("peer %d received %s but held no matching subscription at any time during the call (subscriptions %s)", pr.Idx, ctx, ivStr(subs[pr.Idx])))
			}
			if len(g) == 0 && must && !pr.EOF {
				res.Violate("C06", "C06.missing-delivery", "missing", fmt.Sprintf("peer %d held a matching subscription throughout %s and never received it (subscriptions %s)", pr.Idx, ctx, ivStr(subs[pr.Idx])))
			}
			for _, pb := range g {
				if pb.Message.Topic != c.M.Topic || string(pb.Message.Payload) != string(c.M.Payload) {
					res.Violate("C06", "C06.intact", "content", fmt.Sprintf("peer %d received %s for %s", pr.Idx, pktBrief(pb), ctx))
				}
				if pb.Message.Retain {
					res.Violate("C06", "C06.retain-flag", "true", fmt.Sprintf("peer %d received %s with the retain flag set (%s)", pr.Idx, pktBrief(pb), ctx))
				}
				if may && !qset[int(pb.Message.QOS)] {
					res.Violate("C06", "C06.qos-cap", fmt.Sprintf("got%d", pb.Message.QOS), fmt.Sprintf("peer %d received %s at QoS %d; QoS granted to its matching subscriptions allows %v (%s)", pr.Idx, pktBrief(pb), pb.Message.QOS, keys(qset), ctx))
				}
			}
		}
	}
	res.Nontrivial = pubs >= 2 && deliveries >= 1
	res.Count("publishes", int64(pubs))
	res.Count("deliveries", int64(deliveries))
	res.Count("ambiguous_subscription_overlaps", int64(overlapping))
	res.State = fmt.Sprintf("c%d/%d", pubs, deliveries)
}

func ivStr(l []*subIv) string {
	var s []string
	for _, iv := range l {
		s = append(s, fmt.Sprintf("%s:q%d[%d..%d]", iv.filter, iv.qos, iv.enter, iv.endEnter))
	}
	return "[" + strings.Join(s, " ") + "]"
}
