package brk

import (
	"fmt"
	"testing"

	"github.com/256dpi/gomqtt/packet"

	"verif/sim/core"
	"verif/sim/rt"
)

// C15 (broker side): per-publisher order end to end, including retransmissions.
// 1-8 publishers send numbered messages at each QoS to overlapping topics read
// by 1-4 persistent subscribers with differing granted QoS; subscribers are cut
// and resumed while several messages are unacknowledged.

// ExpandC15 and RunC15 are the broker-side half of the C15 check; the check
// itself is registered by worlds/e2e, which adds the end-to-end half.
func ExpandC15(t *testing.T, seed uint64, tier string) []*core.Plan { return expandC15(t, seed, tier) }

// RunC15 runs a broker-side C15 plan.
func RunC15(t *testing.T, p *core.Plan) *core.Result { return runC15(t, p) }

func expandC15(_ *testing.T, seed uint64, tier string) []*core.Plan {
	r := core.NewRand(core.Derive(seed, "plan"))
	p := &core.Plan{Check: "C15", Seed: seed}
	np, ns := r.Range(1, 8), r.Range(1, 4)
	p.SetKnob("pubs", np)
	p.SetKnob("subs", ns)
	p.SetKnob("window", r.Range(1, 10))
	p.SetKnob("chunk", r.Pick(0, 0, -1, 1))
	p.SetKnob("gate", r.Pick(0, 0, 1))
	p.Yield = r.Pick(0, 0, 8)
	// subscriptions: each subscriber one or two overlapping filters with their own QoS
	for s := 1; s <= ns; s++ {
		it := core.Item{K: "sub", P: s, L: []int{r.Intn(3), r.Pick(0, 1, 2, 2)}}
		if r.Chance(1, 2) {
			it.L = append(it.L, r.Intn(3), r.Pick(1, 2))
		}
		p.Items = append(p.Items, it)
	}
	seq := map[int]int{}
	n := r.Range(4, 60)
	offline := map[int]bool{}
	for i := 0; i < n; i++ {
		switch r.Weighted([]int{14, 2, 2, 2, 1}) {
		case 4:
			// the subscriber comes back while its previous connection is still
			// up (half-open): a resumption without a cut
			if s := 1 + r.Intn(ns); !offline[s] {
				p.Items = append(p.Items, core.Item{K: "takeover", P: s})
			}
		case 0:
			pb := 1 + r.Intn(np)
			seq[pb]++
			p.Items = append(p.Items, core.Item{K: "pub", P: pb, A: r.Intn(3), B: r.Intn(2), D: pb*100000 + seq[pb]})
		case 1:
			p.Items = append(p.Items, core.Item{K: "ack", P: 1 + r.Intn(ns), A: r.Range(0, 3)})
		case 2:
			s := 1 + r.Intn(ns)
			if !offline[s] {
				p.Items = append(p.Items, core.Item{K: "cut", P: s})
				offline[s] = true
			}
		case 3:
			s := 1 + r.Intn(ns)
			if offline[s] {
				p.Items = append(p.Items, core.Item{K: "resume", P: s})
				offline[s] = false
			}
		}
	}
	return []*core.Plan{p}
}

var c15Filters = []string{"o/#", "o/a", "o/+"}
var c15Topics = []string{"o/a", "o/b"}

func runC15(t *testing.T, p *core.Plan) *core.Result {
	res := &core.Result{Check: "C15", Seed: p.Seed}
	cfg := DefaultConfig()
	cfg.Chunk = p.Knob("chunk", 0)
	cfg.Inflight = p.Knob("window", 10)
	cfg.GateBackend = p.Knob("gate", 0) == 1
	cfg.QueueSize = 200
	cfg.ParPublishes = 128
	np, ns := p.Knob("pubs", 1), p.Knob("subs", 1)
	var w *World
	ptxt := core.Bubble(t, p.Seed, p.Yield, func() {
		w = NewWorld(cfg, p.Seed, res)
		pubs := map[int]*Peer{}
		for i := 1; i <= np; i++ {
			pr := w.NewPeer(fmt.Sprintf("p%d", i))
			c := packet.NewConnect()
			c.ClientID, c.CleanSession = pr.CID, true
			pr.Send(c)
			pubs[i] = pr
		}
		subConns := map[int][]*Peer{}
		cur := map[int]*Peer{}
		connect := func(s int) {
			pr := w.NewPeer(fmt.Sprintf("s%d", s))
			pr.AckMode = 1
			c := packet.NewConnect()
			c.ClientID, c.CleanSession = pr.CID, false
			pr.Send(c)
			subConns[s] = append(subConns[s], pr)
			cur[s] = pr
		}
		for s := 1; s <= ns; s++ {
			connect(s)
		}
		w.Settle()
		pubQoS := map[int]int{}
		next := 0
		// subscriptions first, settled; then the concurrent phase
		for next < len(p.Items) && p.Items[next].K == "sub" {
			it := p.Items[next]
			next++
			sp := packet.NewSubscribe()
			sp.ID = cur[it.P].NextID()
			for i := 0; i+1 < len(it.L); i += 2 {
				sp.Subscriptions = append(sp.Subscriptions, packet.Subscription{Topic: c15Filters[it.L[i]%3], QOS: packet.QOS(it.L[i+1] % 3)})
			}
			cur[it.P].Send(sp)
		}
		w.Settle()
		for steps := 0; steps < 60000; steps++ {
			wait()
			w.Steps++
			var acts []string
			var wt []int
			if next < len(p.Items) {
				acts, wt = append(acts, "item"), append(wt, 5)
			}
			if len(w.parked) > 0 {
				acts, wt = append(acts, "gate"), append(wt, 6)
			}
			var nets []func()
			for _, pr := range w.Peers[1:] {
				pr := pr
				if n := pr.Link.A2B.InFlight(); n > 0 && !pr.Link.A2B.Broken() {
					nets = append(nets, func() { w.deliverToBroker(pr, w.chunk(n)) })
				}
				if n := pr.Link.B2A.InFlight(); n > 0 && !pr.Link.B2A.Broken() && !pr.Stalled {
					nets = append(nets, func() { w.deliverToPeer(pr, w.chunk(n)) })
				}
			}
			if len(nets) > 0 {
				acts, wt = append(acts, "net"), append(wt, 8)
			}
			if d := rt.NextWake() - nowNano(); rt.NextWake() != 0 && d <= int64(w.shortHorizon()) {
				acts, wt = append(acts, "timer"), append(wt, 3)
			}
			if next >= len(p.Items) || len(acts) == 0 {
				break
			}
			switch acts[w.Sched.Weighted(wt)] {
			case "item":
				it := p.Items[next]
				next++
				switch it.K {
				case "pub":
					pb := packet.NewPublish()
					pb.Message = packet.Message{Topic: c15Topics[it.B%2], QOS: packet.QOS(it.A), Payload: MsgPayload(it.D, 0)}
					if it.A > 0 {
						pb.ID = pubs[it.P].NextID()
					}
					pubQoS[it.D] = it.A
					pubs[it.P].Send(pb)
				case "ack":
					pr := cur[it.P]
					n := it.A
					for (n > 0 || it.A == 0) && len(pr.Pending) > 0 {
						x := pr.Pending[0]
						pr.Pending = pr.Pending[1:]
						pr.Send(x)
						n--
					}
				case "cut":
					if !cur[it.P].EOF {
						cur[it.P].Drop()
					}
				case "resume":
					if cur[it.P].EOF {
						connect(it.P)
					}
				case "takeover":
					if old := cur[it.P]; !old.EOF {
						old.Stalled, old.AckMode, old.Pending = true, 2, nil
						connect(it.P)
						res.Count("half_open_takeovers", 1)
					}
				}
			case "gate":
				i := w.Sched.Intn(len(w.parked))
				pk := w.parked[i]
				w.parked = append(w.parked[:i], w.parked[i+1:]...)
				close(pk.ch)
			case "net":
				nets[w.Sched.Intn(len(nets))]()
			case "timer":
				d := rt.NextWake() - nowNano()
				if d < 0 {
					d = 0
				}
				sleepNano(d)
			}
		}
		w.Settle()
		// everybody resumes and acknowledges promptly
		for s := 1; s <= ns; s++ {
			if cur[s].EOF {
				connect(s)
			}
		}
		w.Settle()
		for round := 0; round < 200; round++ {
			any := false
			for s := 1; s <= ns; s++ {
				pr := cur[s]
				if len(pr.Pending) > 0 {
					any = true
					pend := pr.Pending
					pr.Pending = nil
					for _, x := range pend {
						pr.Send(x)
					}
				}
			}
			if !any {
				break
			}
			w.Settle()
		}
		judgeC15(w, subConns, pubQoS, res)
		if leaks := w.Teardown(); len(leaks) > 0 {
			res.Violate("C15", "C15.leak", leaks[0], fmt.Sprintf("%d goroutines still alive after teardown: %v", len(leaks), leaks))
		}
		res.Yields = rt.Yields()
		res.SimNanos = int64(core.SimNow())
	})
	if ptxt != "" {
		res.Violate("C15", "C15.panic", "bubble", ptxt)
	}
	if w != nil {
		res.Hash, res.Events, res.Steps = w.Log.Hash(), w.Log.N, w.Steps
		res.Sched = w.Log.Hash()
	}
	if p.Seed%67 == 0 {
		res.Sample = p.Brief(14)
	}
	return res
}

func judgeC15(w *World, subConns map[int][]*Peer, pubQoS map[int]int, res *core.Result) {
	groupsChecked, resendsChecked, multiResends := 0, 0, 0
	for s, conns := range subConns {
		// (1) first deliveries: per (publisher, published QoS, delivered QoS) increasing
		last := map[string]int{}
		// (2) retransmissions after a resume leave in the order of the original transmission
		firstSent := map[string]uint64{} // "id/tag" -> event of the first transmission
		arrived := map[int]bool{}
		for ci, c := range conns {
			for _, e := range c.Recv {
				q, ok := e.P.(*packet.Publish)
				if !ok {
					continue
				}
				tag := TagOf(q.Message.Payload)
				if tag < 0 || arrived[tag] {
					continue // only the first arrival of a message counts (a retransmission of something already seen does not)
				}
				arrived[tag] = true
				key := fmt.Sprintf("p%d/pq%d/dq%d", tag/100000, pubQoS[tag], q.Message.QOS)
				if prev, ok := last[key]; ok && tag%100000 <= prev%100000 {
					res.Violate("C15", "C15.publisher-order", fmt.Sprintf("pq%d-dq%d", pubQoS[tag], q.Message.QOS), fmt.Sprintf("subscriber s%d received message %d of publisher %d (published at QoS %d, delivered at QoS %d) after message %d", s, tag%100000, tag/100000, pubQoS[tag], q.Message.QOS, prev%100000))
				}
				last[key] = tag
				groupsChecked++
			}
			// broker-side sends of this connection
			var burst []uint64
			inBurst := ci > 0
			var burstDesc []string
			for _, e := range w.Hist {
				if e.C == c.Idx && e.K == EvBkEnter && e.Call == "Restore" {
					inBurst = false // the resend loop of processConnect is over
				}
				if e.C != c.Idx || e.K != EvConnSend {
					continue
				}
				switch q := e.P.(type) {
				case *packet.Publish:
					if q.Message.QOS == 0 {
						continue
					}
					k := fmt.Sprintf("%d/%d", q.ID, TagOf(q.Message.Payload))
					if !q.Dup {
						inBurst = false
						if _, ok := firstSent[k]; !ok {
							firstSent[k] = e.Seq
						}
						// remember under the id alone too (PUBREL carries no payload)
						firstSent[fmt.Sprintf("%d/", q.ID)] = firstSent[k]
					} else if inBurst {
						if fs, ok := firstSent[k]; ok {
							burst = append(burst, fs)
							burstDesc = append(burstDesc, fmt.Sprintf("PUBLISH(id %d #%d first sent at %d)", q.ID, TagOf(q.Message.Payload), fs))
						}
					}
				case *packet.Pubrel:
					if inBurst {
						if fs, ok := firstSent[fmt.Sprintf("%d/", q.ID)]; ok {
							burst = append(burst, fs)
							burstDesc = append(burstDesc, fmt.Sprintf("PUBREL(id %d first sent at %d)", q.ID, fs))
						}
					}
				case *packet.Connack:
				default:
				}
			}
			if len(burst) > 0 {
				resendsChecked++
			}
			if len(burst) > 1 {
				multiResends++
			}
			for i := 1; i < len(burst); i++ {
				if burst[i] < burst[i-1] {
					res.Violate("C15", "C15.resend-order", "reordered", fmt.Sprintf("connection %d of subscriber s%d retransmitted %d stored packets in the order %v, which is not the order of their original transmission", ci+1, s, len(burst), burstDesc))
					break
				}
			}
		}
	}
	res.Count("first_deliveries_checked", int64(groupsChecked))
	res.Count("resumes_with_retransmissions", int64(resendsChecked))
	res.Count("resumes_with_2plus_retransmissions", int64(multiResends))
	res.Nontrivial = groupsChecked >= 2
	res.State = fmt.Sprintf("%d/%d", groupsChecked, multiResends)
}
