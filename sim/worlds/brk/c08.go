package brk

import (
	"fmt"
	"sort"
	"testing"

	"github.com/256dpi/gomqtt/packet"

	"verif/sim/core"
	"verif/sim/model"
	"verif/sim/rt"
)

// C08: the broker never loses an accepted QoS>=1 message for a persistent
// subscriber; retransmits on resume; session-present is truthful; a clean
// connect discards everything.

// ExpandC08 / RunC08: the check is registered by the e2e package, which adds an
// end-to-end seed class (real clients against the real broker) to it.
func ExpandC08(t *testing.T, seed uint64, tier string) []*core.Plan { return expandC08(t, seed, tier) }

// RunC08 runs one plan of the scripted-peer classes.
func RunC08(t *testing.T, p *core.Plan) *core.Result { return runC08(t, p) }

func expandC08(t *testing.T, seed uint64, tier string) []*core.Plan {
	r := core.NewRand(core.Derive(seed, "plan"))
	p := &core.Plan{Check: "C08", Seed: seed}
	p.SetKnob("chunk", r.Pick(0, 0, -1, 1))
	p.SetKnob("inflight", r.Pick(10, 3, 2, 1))
	p.SetKnob("queue", r.Pick(100, 100, 100, 4))
	p.SetKnob("defer", r.Pick(0, 1, 1))
	if r.Chance(1, 3) {
		// loose mode: items are issued back to back (the system settles only at
		// explicit settle items) and backend calls are parked at the gate, so
		// that a publish can meet a connection that is dying but not yet terminated
		p.SetKnob("loose", 1)
		p.SetKnob("gate", 1)
	}
	// the subscriber's subscriptions: one or two filters
	nf := r.Pick(1, 1, 2)
	subit := core.Item{K: "sub"}
	for i := 0; i < nf; i++ {
		subit.L = append(subit.L, r.Pick(0, 5, 7, 8, 1), r.Pick(1, 2, 2, 0))
	}
	p.Items = append(p.Items, core.Item{K: "connect", A: 0}, subit)
	online := true
	tag := 0
	ownN := 0
	n := r.Range(2, 16)
	for i := 0; i < n; i++ {
		switch r.Weighted([]int{10, 3, 2, 2, 3, 1, 1, 2}) {
		case 7:
			// the subscriber publishes itself (QoS 2): its packet ids live in a
			// different id space than the ids of the deliveries it receives, and
			// both start at 1
			if online {
				tag++
				ownN++
				p.Items = append(p.Items, core.Item{K: "ownpub", A: ownN, S: Topics[r.Intn(len(Topics))], D: tag})
			}
		case 6:
			// the subscriber connects again while its previous connection is
			// still up (takeover), clean or not
			if online {
				p.Items = append(p.Items, core.Item{K: "takeover", A: b2i(r.Chance(1, 3))})
			}
		case 0:
			tag++
			p.Items = append(p.Items, core.Item{K: "pub", A: r.Pick(0, 1, 1, 2, 2), S: Topics[r.Intn(len(Topics))], D: tag})
		case 1:
			p.Items = append(p.Items, core.Item{K: "ack"})
		case 2:
			p.Items = append(p.Items, core.Item{K: "ack1"})
		case 3:
			if online {
				p.Items = append(p.Items, core.Item{K: "drop"})
				online = false
			}
		case 4:
			if !online {
				p.Items = append(p.Items, core.Item{K: "connect", A: b2i(r.Chance(1, 6))})
				online = true
			} else {
				p.Items = append(p.Items, core.Item{K: "settle"})
			}
		case 5:
			p.Items = append(p.Items, subit)
		}
	}
	out := []*core.Plan{p}
	base := runC08(t, p)
	add := func(conn, mode, k int) {
		q := clonePlan(p)
		q.SetKnob("fconn", conn)
		q.SetKnob("fmode", mode)
		q.SetKnob("fk", k)
		out = append(out, q)
	}
	for conn := 1; conn <= 3; conn++ {
		ns := int(base.Counters[fmt.Sprintf("conn%d_sends", conn)])
		nr := int(base.Counters[fmt.Sprintf("conn%d_recvs", conn)])
		if tier != "thorough" && conn == 3 {
			break
		}
		for k := 1; k <= ns; k++ {
			add(conn, 1, k)
			add(conn, 2, k)
		}
		for k := 1; k <= nr; k++ {
			add(conn, 3, k)
			add(conn, 4, k)
		}
	}
	return out
}

type subscriber struct {
	w     *World
	cid   string
	cur   *Peer
	conns []*Peer
	clean []bool
}

func (s *subscriber) connect(clean bool, deferAcks bool) {
	p := s.w.NewPeer(s.cid)
	if deferAcks {
		p.AckMode = 1
	}
	s.cur = p
	s.conns = append(s.conns, p)
	s.clean = append(s.clean, clean)
	c := packet.NewConnect()
	c.ClientID, c.CleanSession = s.cid, clean
	p.Send(c)
}

func runC08(t *testing.T, p *core.Plan) *core.Result {
	res := &core.Result{Check: "C08", Seed: p.Seed}
	cfg := DefaultConfig()
	cfg.Chunk = p.Knob("chunk", 0)
	cfg.Inflight = p.Knob("inflight", 10)
	cfg.QueueSize = p.Knob("queue", 100)
	cfg.ParPublishes = 64
	deferAcks := p.Knob("defer", 0) == 1
	cfg.GateBackend = p.Knob("gate", 0) == 1
	loose := p.Knob("loose", 0) == 1
	fconn, fmode, fk := p.Knob("fconn", 0), p.Knob("fmode", 0), p.Knob("fk", 0)
	var w *World
	ptxt := core.Bubble(t, p.Seed, p.Yield, func() {
		w = NewWorld(cfg, p.Seed, res)
		src := w.NewPeer("src")
		sc := packet.NewConnect()
		sc.ClientID, sc.CleanSession = "src", true
		src.Send(sc)
		w.Settle()
		sub := &subscriber{w: w, cid: "sub"}
		arm := func() {
			if len(sub.conns) == fconn {
				armFault(sub.cur, fmode, fk)
			}
		}
		for _, it := range p.Items {
			switch it.K {
			case "connect":
				if sub.cur != nil && !sub.cur.EOF {
					break
				}
				sub.connect(it.A == 1, deferAcks)
				arm()
			case "takeover":
				if sub.cur != nil && !sub.cur.EOF {
					sub.connect(it.A == 1, deferAcks)
					arm()
				}
			case "sub":
				if sub.cur != nil && !sub.cur.EOF {
					sp := packet.NewSubscribe()
					sp.ID = sub.cur.NextID()
					for i := 0; i+1 < len(it.L); i += 2 {
						sp.Subscriptions = append(sp.Subscriptions, packet.Subscription{Topic: Filters[it.L[i]%len(Filters)], QOS: packet.QOS(it.L[i+1] % 3)})
					}
					sub.cur.Send(sp)
				}
			case "pub":
				pb := packet.NewPublish()
				pb.Message = packet.Message{Topic: it.S, QOS: packet.QOS(it.A % 3), Payload: MsgPayload(it.D, 0)}
				if pb.Message.QOS > 0 {
					pb.ID = src.NextID()
				}
				src.Send(pb)
			case "ownpub":
				if sub.cur != nil && !sub.cur.EOF {
					pb := packet.NewPublish()
					pb.ID = packet.ID(it.A)
					pb.Message = packet.Message{Topic: it.S, QOS: 2, Payload: MsgPayload(it.D, 0)}
					sub.cur.Send(pb)
					res.Count("subscriber_own_publishes", 1)
				}
			case "ack":
				if sub.cur != nil {
					pend := sub.cur.Pending
					sub.cur.Pending = nil
					for _, x := range pend {
						sub.cur.Send(x)
					}
				}
			case "ack1":
				if sub.cur != nil && len(sub.cur.Pending) > 0 {
					x := sub.cur.Pending[0]
					sub.cur.Pending = sub.cur.Pending[1:]
					sub.cur.Send(x)
				}
			case "drop":
				if sub.cur != nil && !sub.cur.EOF {
					sub.cur.Drop()
				}
			}
			if !loose || it.K == "settle" || it.K == "connect" || it.K == "takeover" {
				w.Settle()
			} else {
				w.Nudge(2)
			}
		}
		// final well-behaved phase: resume, acknowledge everything promptly
		for round := 0; round < 4; round++ {
			if sub.cur == nil || sub.cur.EOF {
				sub.connect(false, false)
				arm()
			}
			sub.cur.AckMode = 0
			pend := sub.cur.Pending
			sub.cur.Pending = nil
			for _, x := range pend {
				sub.cur.Send(x)
			}
			w.Settle()
			if !sub.cur.EOF {
				break
			}
		}
		for i, c := range sub.conns {
			if i < 3 {
				res.Count(fmt.Sprintf("conn%d_sends", i+1), int64(c.FC.sends))
				res.Count(fmt.Sprintf("conn%d_recvs", i+1), int64(len(c.Sent)))
			}
		}
		judgeC08(w, sub, src, p, res)
		if leaks := w.Teardown(); len(leaks) > 0 {
			res.Violate("C08", "C08.leak", leaks[0], fmt.Sprintf("%d goroutines still alive after teardown: %v", len(leaks), leaks))
		}
		res.Yields = rt.Yields()
		res.SimNanos = int64(core.SimNow())
	})
	if ptxt != "" {
		res.Violate("C08", "C08.panic", "bubble", ptxt)
	}
	if w != nil {
		res.Hash, res.Events, res.Steps = w.Log.Hash(), w.Log.N, w.Steps
		res.Sched = w.Log.Hash()
	}
	if p.Seed%37 == 0 && fmode <= 1 {
		res.Sample = p.Brief(14)
	}
	return res
}

type outst struct {
	kind string // "PUBLISH" or "PUBREL"
	tag  int
	qos  int
}

func judgeC08(w *World, sub *subscriber, src *Peer, p *core.Plan, res *core.Result) {
	idxOf := map[int]int{} // conn idx -> ordinal among the subscriber's connections
	for i, c := range sub.conns {
		idxOf[c.Idx] = i
	}
	calls := ByEffect(BackendCalls(w.Hist))
	var subCalls []*BkCall
	for _, c := range calls {
		if c.CID == "sub" && (c.Call == "Setup" || c.Call == "Terminate" || c.Call == "Subscribe" || c.Call == "Unsubscribe") {
			subCalls = append(subCalls, c)
		}
	}
	// session model from the Backend seam: does a stored session exist, which
	// subscriptions does the current session hold
	type sessState struct {
		stored bool
		subs   map[string]int
		since  uint64 // event at which the current session object came to life
	}
	st := &sessState{subs: map[string]int{}}
	setupOf := map[int]*BkCall{}
	// per-connection: expected session-present
	wantSP := map[int]bool{}
	// messages accepted for the session: tag -> delivery qos set / required
	type acc struct {
		tag      int
		topic    string
		pubQoS   int
		at       uint64
		required bool
		sessGen  int
	}
	var accs []*acc
	gen := 0
	connGen := map[int]int{}
	totalQ := 0
	for _, c := range calls {
		switch {
		case c.Call == "Setup" && c.CID == "sub":
			setupOf[c.C] = c
			if c.Err != nil {
				continue
			}
			if c.Clean {
				st = &sessState{subs: map[string]int{}, since: c.Enter}
				gen++
				wantSP[c.C] = false
			} else {
				wantSP[c.C] = st.stored
				if !st.stored {
					st = &sessState{stored: true, subs: map[string]int{}, since: c.Enter}
					gen++
				}
			}
			connGen[c.C] = gen
		case c.Call == "Subscribe" && c.CID == "sub" && c.Err == nil:
			if g, ok := connGen[c.C]; ok && g != gen {
				// the call belongs to a connection that has been displaced in the
				// meantime (its Setup is older than the current session): it changed
				// the session object that is being discarded, not the current one
				res.Count("subscribe_on_displaced_session", 1)
				continue
			}
			for _, s := range c.P.(*packet.Subscribe).Subscriptions {
				st.subs[s.Topic] = int(s.QOS)
			}
		case c.Call == "Terminate" && c.CID == "sub":
			if !st.stored && connGen[c.C] == gen {
				// a temporary (clean) session dies with its connection (the
				// Terminate of a connection that was taken over does not touch
				// the newcomer's session)
				st = &sessState{subs: map[string]int{}}
				gen++
			}
		case c.Call == "Publish" && c.M != nil && c.Err == nil && (c.CID == "src" || c.CID == "sub"):
			best := -1
			for f, q := range st.subs {
				if model.Matches(f, c.M.Topic) {
					m := int(c.M.QOS)
					if q < m {
						m = q
					}
					if m > best {
						best = m
					}
				}
			}
			if best < 0 {
				continue
			}
			a := &acc{tag: TagOf(c.M.Payload), topic: c.M.Topic, pubQoS: int(c.M.QOS), at: c.Eff(), sessGen: gen}
			// required only if every matching subscription grants QoS>=1 (one
			// of them is picked) and the publish itself is QoS>=1
			minq := 3
			for f, q := range st.subs {
				if model.Matches(f, c.M.Topic) && q < minq {
					minq = q
				}
			}
			a.required = c.M.QOS > 0 && minq >= 1
			for _, sc := range subCalls {
				if sc.Overlaps(c) {
					// the publish ran concurrently with a call that changes the
					// session: either order is legitimate
					a.required = false
					res.Count("ambiguous_overlaps", 1)
				}
			}
			if c.M.QOS > 0 {
				totalQ++
			}
			accs = append(accs, a)
		}
	}
	overCapacity := totalQ > w.Cfg.QueueSize
	if overCapacity {
		res.Count("queue_capacity_exceeded", 1)
	}

	// walk the subscriber connections: outstanding packets per session
	outstanding := map[packet.ID]outst{}
	curGen := -1
	genOfConn := map[int]int{}
	g := 0
	// recompute generation per connection in setup order
	{
		stored := false
		for _, c := range calls {
			if c.Call == "Setup" && c.CID == "sub" && c.Err == nil {
				if c.Clean {
					g++
					stored = false
				} else if !stored {
					g++
					stored = true
				}
				genOfConn[c.C] = g
			}
			if c.Call == "Terminate" && c.CID == "sub" && !stored && genOfConn[c.C] == g {
				g++
			}
		}
	}
	received := map[int]int{}   // tag -> times received by the subscriber (any connection)
	completed := map[int]bool{} // tag -> handshake completed
	nonDup := map[int]int{}
	resends, resumes := 0, 0
	for ci, c := range sub.conns {
		su := setupOf[c.Idx]
		if su == nil || su.Err != nil {
			continue
		}
		if genOfConn[c.Idx] != curGen {
			outstanding = map[packet.ID]outst{}
			curGen = genOfConn[c.Idx]
		}
		// session-present
		if c.Connack != nil && c.Connack.ReturnCode == 0 {
			if c.Connack.SessionPresent != wantSP[c.Idx] {
				res.Violate("C08", "C08.session-present", fmt.Sprint(c.Connack.SessionPresent), fmt.Sprintf("connection %d of the subscriber (clean=%v) got session-present=%v, stored state existed: %v", ci+1, su.Clean, c.Connack.SessionPresent, wantSP[c.Idx]))
			}
		}
		// expected retransmissions: everything outstanding, before anything new
		expectResend := map[packet.ID]outst{}
		if su.Resumed && !su.Clean {
			for id, o := range outstanding {
				expectResend[id] = o
			}
			if len(expectResend) > 0 {
				resumes++
			}
		}
		peerIn := map[packet.ID]int{} // id -> tag of the publish the peer is handling
		for _, e := range w.Hist {
			if e.C != c.Idx {
				continue
			}
			switch e.K {
			case EvConnSend:
				switch q := e.P.(type) {
				case *packet.Publish:
					if q.Message.QOS == 0 {
						break
					}
					tag := TagOf(q.Message.Payload)
					if e.S != "stored:Publish" {
						res.Violate("C08", "C08.store-before-send", e.S, fmt.Sprintf("PUBLISH(id %d, #%d) entered Send while the session held %q under that id", q.ID, tag, e.S))
					}
					if o, ok := expectResend[q.ID]; ok && o.kind == "PUBLISH" && o.tag == tag {
						if !q.Dup {
							res.Violate("C08", "C08.resend", "dup-flag-missing", fmt.Sprintf("retransmitted PUBLISH(id %d, #%d) after resume is not flagged DUP", q.ID, tag))
						}
						delete(expectResend, q.ID)
						resends++
					} else {
						if len(expectResend) > 0 {
							res.Violate("C08", "C08.resend", "new-before-resend", fmt.Sprintf("connection %d: new PUBLISH(id %d, #%d) was sent while %d stored packets had not been retransmitted yet", ci+1, q.ID, tag, len(expectResend)))
						}
						if !q.Dup {
							nonDup[tag]++
						}
						if q.Dup {
							res.Violate("C08", "C08.resend", "dup-on-first", fmt.Sprintf("first transmission of PUBLISH(id %d, #%d) is flagged DUP", q.ID, tag))
						}
					}
					outstanding[q.ID] = outst{"PUBLISH", tag, int(q.Message.QOS)}
				case *packet.Pubrel:
					if e.S != "stored:Pubrel" {
						res.Violate("C08", "C08.store-before-send", "pubrel-"+e.S, fmt.Sprintf("PUBREL(%d) entered Send while the session held %q", q.ID, e.S))
					}
					if o, ok := expectResend[q.ID]; ok && o.kind == "PUBREL" {
						delete(expectResend, q.ID)
						resends++
					}
				}
			case EvConnRecv:
				switch q := e.P.(type) {
				case *packet.Puback:
					if o, ok := outstanding[q.ID]; ok && o.kind == "PUBLISH" && o.qos == 1 {
						completed[o.tag] = true
					}
					delete(outstanding, q.ID)
				case *packet.Pubcomp:
					if o, ok := outstanding[q.ID]; ok {
						completed[o.tag] = true
					}
					delete(outstanding, q.ID)
				case *packet.Pubrec:
					if o, ok := outstanding[q.ID]; ok {
						outstanding[q.ID] = outst{"PUBREL", o.tag, o.qos}
					} else {
						outstanding[q.ID] = outst{"PUBREL", -1, 2}
					}
				}
			case EvPeerRecv:
				if q, ok := e.P.(*packet.Publish); ok {
					tag := TagOf(q.Message.Payload)
					received[tag]++
					peerIn[q.ID] = tag
					if q.Message.QOS == 0 {
						completed[tag] = true
					}
					// a clean session must not see anything published before it subscribed
					if su.Clean {
						for _, a := range accs {
							if a.tag == tag && a.at < su.Enter {
								res.Violate("C08", "C08.clean-discards", "old-message", fmt.Sprintf("connection %d (clean session) received #%d, published before the clean connect", ci+1, tag))
							}
						}
					}
				}
			}
		}
		if len(expectResend) > 0 && !c.EOF {
			var ids []int
			for id := range expectResend {
				ids = append(ids, int(id))
			}
			sort.Ints(ids)
			res.Violate("C08", "C08.resend", "not-retransmitted", fmt.Sprintf("connection %d resumed the session but stored packets with ids %v were never retransmitted (%v)", ci+1, ids, expectResend))
		}
	}
	for tag, n := range nonDup {
		if n > 1 {
			res.Violate("C08", "C08.qos2-new-once", "non-dup-twice", fmt.Sprintf("message #%d was sent to the subscriber %d times as a new (non-DUP) PUBLISH", tag, n))
		}
	}
	// no loss: accepted for the current (final) session generation, QoS>=1 => received and completed
	last := sub.conns[len(sub.conns)-1]
	finalGen := genOfConn[last.Idx]
	lost := 0
	if !last.EOF {
		for _, a := range accs {
			if !a.required || overCapacity {
				continue
			}
			if a.sessGen != gen || gen != finalGenOf(calls) {
				continue // the session it was queued for has been discarded since
			}
			if received[a.tag] == 0 {
				lost++
				res.Violate("C08", "C08.no-loss", "never-delivered", fmt.Sprintf("message #%d (%s, QoS %d) was accepted by the backend for the persistent session and never reached the subscriber although it resumed and acknowledged everything", a.tag, a.topic, a.pubQoS))
			} else if !completed[a.tag] {
				res.Violate("C08", "C08.no-loss", "never-completed", fmt.Sprintf("message #%d reached the subscriber but its handshake never completed although the subscriber answers everything", a.tag))
			}
		}
	}
	_ = finalGen
	res.Count("subscriber_connections", int64(len(sub.conns)))
	res.Count("retransmissions_checked", int64(resends))
	res.Count("resumes_with_outstanding", int64(resumes))
	res.Count("accepted_for_session", int64(len(accs)))
	interrupted := p.Knob("fmode", 0) != 0
	res.Nontrivial = len(accs) > 0 && (resumes > 0 || interrupted || len(sub.conns) > 1)
	res.State = fmt.Sprintf("%d/%d/%d", len(accs), resends, len(sub.conns))
}

// finalGenOf returns the session generation that exists at the end.
func finalGenOf(calls []*BkCall) int {
	g := 0
	stored := false
	of := map[int]int{}
	for _, c := range calls {
		if c.Call == "Setup" && c.CID == "sub" && c.Err == nil {
			if c.Clean {
				g++
				stored = false
			} else if !stored {
				g++
				stored = true
			}
			of[c.C] = g
		}
		if c.Call == "Terminate" && c.CID == "sub" && !stored && of[c.C] == g {
			g++
		}
	}
	return g
}
