package brk

import (
	"fmt"
	"strings"
	"testing"
	"time"

	"github.com/256dpi/gomqtt/packet"

	"verif/sim/core"
	"verif/sim/rt"
)

// C13: at most one live connection per client id; takeover keeps the session.
// 2-8 contenders CONNECT with the same id while a publisher sends QoS 1
// traffic towards that id; deliveries, backend calls (gated) and the
// contenders' own deaths are interleaved by the seeded scheduler.

func init() {
	core.Register(&core.Check{ID: "C13", Expand: expandC13, Run: runC13})
}

func expandC13(_ *testing.T, seed uint64, tier string) []*core.Plan {
	r := core.NewRand(core.Derive(seed, "plan"))
	p := &core.Plan{Check: "C13", Seed: seed}
	n := r.Range(2, 8)
	allUnclean := r.Chance(1, 2)
	p.SetKnob("unclean", b2i(allUnclean))
	p.SetKnob("chunk", r.Pick(0, 0, -1, 1))
	p.SetKnob("gate", r.Pick(0, 1, 1))
	p.SetKnob("wills", r.Pick(0, 1))
	p.SetKnob("incumbent", r.Intn(3)) // 0 idle, 1 mid inbound QoS 2 handshake, 2 unacknowledged outbound message
	if r.Chance(1, 8) {
		// the incumbent's peer stops reading and its socket buffer is small: the
		// broker's sends towards it block ("old connection blocked in a send")
		p.SetKnob("stall", 1)
	}
	p.Yield = r.Pick(0, 0, 4, 16)
	p.SetKnob("creds", r.Pick(0, 0, 0, 1))
	tag := 0
	for i := 2; i <= n; i++ {
		clean := 0
		if !allUnclean && r.Chance(1, 2) {
			clean = 1
		}
		p.Items = append(p.Items, core.Item{K: "contend", P: i, A: clean})
		for k := r.Intn(4); k > 0; k-- {
			tag++
			p.Items = append(p.Items, core.Item{K: "pub", D: tag})
		}
		if r.Chance(1, 5) {
			p.Items = append(p.Items, core.Item{K: "die", P: r.Range(1, i)})
		}
		if p.Knob("creds", 0) == 1 && r.Chance(1, 4) {
			// somebody presents the id with a wrong password: refused, and nobody
			// who holds the id legitimately is disturbed by it
			p.Items = append(p.Items, core.Item{K: "intrude", P: 100 + i})
		}
		if p.Knob("gate", 0) == 1 && r.Chance(1, 12) {
			// the kill timeout passes while backend calls (the displaced client's
			// Terminate among them) are still held at the gate
			p.Items = append(p.Items, core.Item{K: "killwait"})
		}
	}
	// interleave: shuffle lightly so that contenders are not strictly ordered
	for i := len(p.Items) - 1; i > 0; i-- {
		if r.Chance(1, 3) {
			j := r.Intn(i + 1)
			p.Items[i], p.Items[j] = p.Items[j], p.Items[i]
		}
	}
	return []*core.Plan{p}
}

func runC13(t *testing.T, p *core.Plan) *core.Result {
	res := &core.Result{Check: "C13", Seed: p.Seed}
	cfg := DefaultConfig()
	cfg.Chunk = p.Knob("chunk", 0)
	cfg.GateBackend = p.Knob("gate", 0) == 1
	cfg.KillTimeout = time.Second
	cfg.ParPublishes = 64
	allUnclean := p.Knob("unclean", 0) == 1
	wills := p.Knob("wills", 0) == 1
	creds := p.Knob("creds", 0) == 1
	if creds {
		cfg.Credentials = map[string]string{"u1": "u1-pw"}
	}
	var w *World
	ptxt := core.Bubble(t, p.Seed, p.Yield, func() {
		w = NewWorld(cfg, p.Seed, res)
		src := w.NewPeer("src")
		c := packet.NewConnect()
		c.ClientID, c.CleanSession = "src", true
		if creds {
			c.Username, c.Password = "u1", "u1-pw"
		}
		src.Send(c)
		contenders := map[int]*Peer{}
		var order []*Peer
		scriptDied := map[*Peer]bool{}
		contend := func(slot int, clean bool) *Peer {
			pr := w.NewPeer("X")
			cc := packet.NewConnect()
			cc.ClientID, cc.CleanSession = "X", clean
			if creds {
				cc.Username, cc.Password = "u1", "u1-pw"
				if slot >= 100 {
					cc.Password = "wrong"
				}
			}
			if wills {
				cc.Will = &packet.Message{Topic: "w/x", Payload: MsgPayload(900000+pr.Idx, 0), QOS: 1}
			}
			pr.Send(cc)
			contenders[slot] = pr
			order = append(order, pr)
			return pr
		}
		// the incumbent: connected, subscribed, in some protocol state
		inc := contend(1, !allUnclean && p.Seed%3 == 0)
		sp := packet.NewSubscribe()
		sp.ID = inc.NextID()
		sp.Subscriptions = []packet.Subscription{{Topic: "t/#", QOS: 1}}
		inc.Send(sp)
		w.Settle()
		switch p.Knob("incumbent", 0) {
		case 1:
			pb := packet.NewPublish()
			pb.ID = 77
			pb.Message = packet.Message{Topic: "q/q", QOS: 2, Payload: MsgPayload(5000, 0)}
			inc.AckMode = 2
			inc.Send(pb)
			w.Settle()
			inc.AckMode = 0
		case 2:
			inc.AckMode = 2 // it will not acknowledge what it receives
			pb := packet.NewPublish()
			pb.ID = src.NextID()
			pb.Message = packet.Message{Topic: "t/pre", QOS: 1, Payload: MsgPayload(4000, 0)}
			src.Send(pb)
			w.Settle()
		}
		if p.Knob("stall", 0) == 1 {
			inc.Link.B2A.Cap = 48
			inc.Stalled = true
			for i := 0; i < 6; i++ {
				pb := packet.NewPublish()
				pb.ID = src.NextID()
				pb.Message = packet.Message{Topic: "t/fill", QOS: 1, Payload: MsgPayload(3000+i, 40)}
				src.Send(pb)
			}
			w.Settle()
			res.Count("stalled_incumbents", 1)
		}
		// the storm
		next := 0
		for steps := 0; steps < 30000; steps++ {
			wait()
			w.Steps++
			var acts []string
			var wt []int
			if next < len(p.Items) {
				acts, wt = append(acts, "item"), append(wt, 5)
			}
			if len(w.parked) > 0 {
				acts, wt = append(acts, "gate"), append(wt, 5)
			}
			var nets []func()
			for _, pr := range w.Peers[1:] {
				pr := pr
				if n := pr.Link.A2B.InFlight(); n > 0 && !pr.Link.A2B.Broken() {
					nets = append(nets, func() { w.deliverToBroker(pr, w.chunk(n)) })
				}
				if n := pr.Link.B2A.InFlight(); n > 0 && !pr.Link.B2A.Broken() && !pr.Stalled {
					nets = append(nets, func() { w.deliverToPeer(pr, w.chunk(n)) })
				}
				if pr.Link.A2B.FinPending() {
					nets = append(nets, func() { pr.Link.A2B.DeliverFIN() })
				}
				if pr.Link.B2A.FinPending() {
					nets = append(nets, func() { pr.Link.B2A.DeliverFIN() })
				}
			}
			if len(nets) > 0 {
				acts, wt = append(acts, "net"), append(wt, 8)
			}
			if d := rt.NextWake() - nowNano(); rt.NextWake() != 0 && d <= int64(w.shortHorizon()) {
				acts, wt = append(acts, "timer"), append(wt, 2)
			}
			if next >= len(p.Items) || len(acts) == 0 {
				break
			}
			switch acts[w.Sched.Weighted(wt)] {
			case "item":
				it := p.Items[next]
				next++
				switch it.K {
				case "contend":
					contend(it.P, it.A == 1)
				case "pub":
					pb := packet.NewPublish()
					pb.ID = src.NextID()
					pb.Message = packet.Message{Topic: "t/m", QOS: 1, Payload: MsgPayload(it.D, 0)}
					src.Send(pb)
				case "die":
					if pr := contenders[it.P]; pr != nil && !pr.EOF {
						scriptDied[pr] = true
						pr.Drop()
					}
				case "intrude":
					contend(it.P, false)
					res.Count("refused_contenders", 1)
				case "killwait":
					if len(w.parked) > 0 {
						w.AdvanceRaw(cfg.KillTimeout + 200*time.Millisecond)
						res.Count("kill_timeouts_while_gated", 1)
					}
				}
			case "gate":
				i := w.Sched.Intn(len(w.parked))
				pk := w.parked[i]
				w.parked = append(w.parked[:i], w.parked[i+1:]...)
				close(pk.ch)
			case "net":
				nets[w.Sched.Intn(len(nets))]()
			case "timer":
				d := rt.NextWake() - nowNano()
				if d < 0 {
					d = 0
				}
				sleepNano(d)
			}
		}
		w.Settle()
		w.Advance(cfg.KillTimeout + time.Second)
		for _, pr := range order {
			pr.AckMode = 0
		}
		w.Settle()
		stalled := false
		for _, st := range core.Stacks() {
			if strings.Contains(st, "MemoryBackend).Setup") && strings.Contains(st, "BaseConn).Close") {
				// the take-over waits for the send mutex of a connection whose send is
				// blocked on a full socket buffer - while holding both backend mutexes
				stalled = true
				res.Violate("C13", "C13.stall-behind-blocked-send", "Setup<-Client.Close<-BaseConn.Close",
					fmt.Sprintf("a take-over of a client whose peer has stopped reading is still stuck %v after the kill timeout: MemoryBackend.Setup -> Client.Close -> BaseConn.Close waits for the send mutex held by a Send that is blocked on the full socket buffer; Setup holds the setup and global mutexes, so every backend call of every client stalls (%s)", cfg.KillTimeout+time.Second, core.TopFrames(st, 5)))
				break
			}
		}
		if !stalled {
			judgeC13(w, order, scriptDied, src, allUnclean, wills, res)
		}
		if leaks := w.Teardown(); len(leaks) > 0 {
			res.Violate("C13", "C13.leak", leaks[0], fmt.Sprintf("%d goroutines still alive after teardown: %v", len(leaks), leaks))
		}
		res.Yields = rt.Yields()
		res.SimNanos = int64(core.SimNow())
	})
	if ptxt != "" {
		res.Violate("C13", "C13.deadlock", "bubble", ptxt)
	}
	if w != nil {
		res.Hash, res.Events, res.Steps = w.Log.Hash(), w.Log.N, w.Steps
		res.Sched = w.Log.Hash()
	}
	if p.Seed%47 == 0 {
		res.Sample = p.Brief(16)
	}
	return res
}

func judgeC13(w *World, order []*Peer, scriptDied map[*Peer]bool, src *Peer, allUnclean, wills bool, res *core.Result) {
	isX := map[int]*Peer{}
	for _, pr := range order {
		isX[pr.Idx] = pr
	}
	acceptedAt := map[int]uint64{} // CONNACK(0) entered Send
	terminated := map[int]uint64{} // Terminate returned
	termEnter := map[int]uint64{}
	willDone := map[int]uint64{} // the will's Publish returned
	willCount := map[int]int{}
	disconnected := map[int]bool{}
	setupOK := map[int]bool{}
	for _, e := range w.Hist {
		if isX[e.C] == nil {
			continue
		}
		switch {
		case e.K == EvConnSend:
			if ca, ok := e.P.(*packet.Connack); ok && ca.ReturnCode == 0 {
				acceptedAt[e.C] = e.Seq
			}
		case e.K == EvBkReturn && e.Call == "Terminate":
			terminated[e.C] = e.Seq
		case e.K == EvBkEnter && e.Call == "Terminate":
			termEnter[e.C] = e.Seq
		case e.K == EvBkReturn && e.Call == "Setup" && e.Err == nil:
			setupOK[e.C] = true
		case e.K == EvBkReturn && e.Call == "Publish" && e.M != nil && TagOf(e.M.Payload) == 900000+e.C:
			willDone[e.C] = e.Seq
			willCount[e.C]++
		case e.K == EvConnRecv && e.P != nil && e.P.Type() == packet.DISCONNECT:
			disconnected[e.C] = true
		}
	}
	// (b) an earlier holder of the id is fully terminated before a later one is acknowledged
	takeovers := 0
	for c1, t1 := range acceptedAt {
		for c2, t2 := range acceptedAt {
			if c1 == c2 || t1 >= t2 {
				continue
			}
			takeovers++
			tt, ok := terminated[c1]
			if !ok || tt > t2 {
				res.Violate("C13", "C13.terminate-before-connack", "terminate", fmt.Sprintf("connection %d was acknowledged (event %d) while connection %d, acknowledged earlier (event %d) with the same client id, had not been terminated at the backend (terminate returned at %d)", c2, t2, c1, t1, tt))
			}
			if wills && !disconnected[c1] {
				if wd, ok := willDone[c1]; !ok || wd > t2 {
					res.Violate("C13", "C13.terminate-before-connack", "will", fmt.Sprintf("connection %d was acknowledged (event %d) before the will of the displaced connection %d had been published (%d)", c2, t2, c1, wd))
				}
			}
		}
	}
	// live-at-once: between acceptance and termination, intervals must not overlap
	for c1, t1 := range acceptedAt {
		e1 := termEnter[c1]
		for c2, t2 := range acceptedAt {
			if c1 >= c2 {
				continue
			}
			e2 := termEnter[c2]
			end1, end2 := e1, e2
			if end1 == 0 {
				end1 = ^uint64(0)
			}
			if end2 == 0 {
				end2 = ^uint64(0)
			}
			if t1 < end2 && t2 < end1 {
				res.Violate("C13", "C13.one-live-connection", "overlap", fmt.Sprintf("connections %d [%d,%d) and %d [%d,%d) were both acknowledged and not yet terminated at the same time", c1, t1, e1, c2, t2, e2))
			}
		}
	}
	// wills: exactly once for every accepted contender that is gone, never for the survivor
	if wills {
		for c, pr := range isX {
			want := 0
			if setupOK[c] && !disconnected[c] && (pr.EOF || terminated[c] != 0) {
				want = 1
			}
			if willCount[c] != want {
				res.Violate("C13", "C13.will", fmt.Sprintf("got%d-want%d", willCount[c], want), fmt.Sprintf("connection %d: will published %d times, expected %d", c, willCount[c], want))
			}
		}
	}
	// (e) the storm ends with exactly the last-acknowledged contender connected
	var last *Peer
	var lastT uint64
	for c, t := range acceptedAt {
		if t > lastT {
			last, lastT = isX[c], t
		}
	}
	live := 0
	for _, pr := range order {
		if pr.Connected() {
			live++
			if pr != last {
				res.Violate("C13", "C13.final-state", "stale-connection", fmt.Sprintf("connection %d is still connected although connection %d was acknowledged later for the same id", pr.Idx, last.Idx))
			}
		} else if !pr.EOF {
			res.Violate("C13", "C13.final-state", "limbo", fmt.Sprintf("connection %d is neither connected nor closed after the kill timeout has passed", pr.Idx))
		}
	}
	// a take-over that ran into the kill timeout (the displaced client's teardown
	// was held up for longer than that) legitimately ends with the newcomer
	// refused and the displaced client gone: nobody holds the id
	killTimeout := false
	for _, e := range w.Hist {
		if e.K == EvBkReturn && e.Call == "Setup" && e.Err != nil && strings.Contains(e.Err.Error(), "kill timeout") {
			killTimeout = true
		}
	}
	if last != nil && !scriptDied[last] && !last.Connected() && !killTimeout {
		res.Violate("C13", "C13.final-state", "winner-lost", fmt.Sprintf("connection %d was the last one acknowledged for the id and did not drop, but is not connected at the end", last.Idx))
	}
	if live > 1 {
		res.Violate("C13", "C13.one-live-connection", "final", fmt.Sprintf("%d connections with the same client id are connected at the end", live))
	}
	// (d) session hand-over without loss or new duplicates (persistent contenders only)
	delivered, required := 0, 0
	stallMode := false
	for _, pr := range order {
		stallMode = stallMode || pr.Stalled
	}
	if allUnclean && last != nil && last.Connected() && !stallMode {
		got := map[int]int{}
		nonDup := map[int]int{}
		for _, pr := range order {
			for _, e := range pr.Recv {
				if q, ok := e.P.(*packet.Publish); ok {
					got[TagOf(q.Message.Payload)]++
				}
			}
		}
		for _, e := range w.Hist {
			if e.K == EvConnSend && isX[e.C] != nil {
				if q, ok := e.P.(*packet.Publish); ok && !q.Dup {
					nonDup[TagOf(q.Message.Payload)]++
				}
			}
		}
		for _, c := range BackendCalls(w.Hist) {
			if c.Call == "Publish" && c.C == src.Idx && c.Err == nil && c.M != nil && c.M.QOS == 1 && c.M.Topic != "w/x" {
				tg := TagOf(c.M.Payload)
				required++
				if got[tg] == 0 {
					res.Violate("C13", "C13.handover", "lost", fmt.Sprintf("message #%d was accepted for the persistent session during the takeover storm and reached none of its connections", tg))
				} else {
					delivered++
				}
				if nonDup[tg] > 1 {
					res.Violate("C13", "C13.handover", "duplicate", fmt.Sprintf("message #%d was sent %d times as a new (non-DUP) delivery across the connections of the session", tg, nonDup[tg]))
				}
			}
		}
	}
	res.Count("contenders", int64(len(order)))
	res.Count("takeover_pairs", int64(takeovers))
	res.Count("handover_messages", int64(required))
	res.Nontrivial = takeovers > 0
	res.State = fmt.Sprintf("%d/%d/%d", len(order), takeovers, delivered)
}
