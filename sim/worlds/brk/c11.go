package brk

import (
	"fmt"
	"testing"

	"github.com/256dpi/gomqtt/packet"

	"verif/sim/core"
	"verif/sim/rt"
)

// C11: the retained set is the last non-empty retained publish per topic,
// replayed exactly on every (re)subscription; live copies carry no retain flag;
// wills with the flag count as publishes. Same reference broker as C06 (strict
// mode), with the retained map and wills switched on in the plan language.

func init() {
	core.Register(&core.Check{ID: "C11", Expand: expandC11, Run: runC11})
}

func expandC11(_ *testing.T, seed uint64, tier string) []*core.Plan {
	r := core.NewRand(core.Derive(seed, "plan"))
	p := &core.Plan{Check: "C11", Seed: seed}
	if seed%7 == 3 {
		// race: SUBSCRIBE packets and retained publishes on matching topics are
		// in flight together, backend calls are held at the gate and released in
		// seeded order. "At every moment" the retained set is the latest retained
		// publish: whichever way a subscription and a publish are ordered, the
		// subscriber sees that publish - replayed or live - and ends up knowing
		// the final retained value of every topic its filter matches.
		p.SetKnob("race", 1)
		p.SetKnob("chunk", r.Pick(0, 0, -1))
		p.SetKnob("gate", r.Pick(1, 1, 0))
		p.Yield = r.Pick(0, 4, 8)
		p.SetKnob("subs", r.Range(1, 3))
		p.SetKnob("pubs", r.Range(1, 4))
		p.SetKnob("pre", r.Intn(2)) // an older retained value exists beforehand
		p.SetKnob("qos", r.Intn(3))
		return []*core.Plan{p}
	}
	nslots := r.Range(1, 5)
	p.SetKnob("chunk", r.Pick(0, 0, -1, 3))
	tag := 0
	n := r.Range(4, 34)
	if tier == "thorough" && r.Chance(1, 5) {
		n = r.Range(34, 120)
	}
	connected := map[int]bool{}
	cidOf := map[int]string{}
	ids := []string{"", "x", "y", "z"}
	// small topic subset per run so that retained topics are hit again
	nt := r.Range(2, len(Topics))
	topics := permuteTopics(r)[:nt]
	for i := 0; i < n; i++ {
		s := 1 + r.Intn(nslots)
		if !connected[s] {
			cid := ids[r.Intn(len(ids))]
			if cid != "" {
				cid = fmt.Sprintf("%s%d", cid, s) // slots own their ids ...
			}
			if r.Chance(1, 8) {
				// ... except that now and then a slot presents the id of another
				// slot's live connection: the broker ends that one itself, and its
				// will (retained or not) counts like any other publish
				var live []int
				for t := 1; t <= nslots; t++ {
					if connected[t] && cidOf[t] != "" {
						live = append(live, t)
					}
				}
				if len(live) > 0 {
					t := live[r.Intn(len(live))]
					cid = cidOf[t]
					connected[t] = false
				}
			}
			cidOf[s] = cid
			clean := r.Chance(1, 2)
			if cid == "" {
				clean = true
			}
			it := core.Item{K: "connect", P: s, S: cid, A: b2i(clean)}
			if r.Chance(1, 3) {
				it.C = 1 + r.Intn(3) + 3*r.Intn(2) // will: qos + retain
				if r.Chance(1, 5) {
					it.C += 6 // ... with an empty payload
				}
				it.L = []int{indexOfTopic(topics[r.Intn(nt)])}
			}
			p.Items = append(p.Items, it)
			connected[s] = true
			continue
		}
		switch r.Weighted([]int{7, 2, 12, 1, 2, 1}) {
		case 0:
			// any filter of the bounded set, 1-3 per packet
			it := core.Item{K: "sub", P: s}
			k := r.Pick(1, 1, 2, 3)
			used := map[int]bool{}
			for j := 0; j < k; j++ {
				f := r.Intn(len(Filters))
				if !used[f] {
					used[f] = true
					it.L = append(it.L, f, r.Intn(3))
				}
			}
			p.Items = append(p.Items, it)
		case 1:
			p.Items = append(p.Items, core.Item{K: "unsub", P: s, L: []int{r.Intn(len(Filters))}})
		case 2:
			tag++
			it := core.Item{K: "pub", P: s, S: topics[r.Intn(nt)], A: r.Intn(3), C: r.Pick(0, 0, 5, 40), D: tag}
			switch r.Weighted([]int{4, 6, 2, 1}) {
			case 1:
				it.B = 1 // retained
			case 2:
				it.B = 2 // retained, empty payload: clears
			case 3:
				it.B = 3 // empty payload without the flag: changes nothing
			}
			p.Items = append(p.Items, it)
		case 3:
			p.Items = append(p.Items, core.Item{K: "disconnect", P: s})
			connected[s] = false
		case 4:
			p.Items = append(p.Items, core.Item{K: "drop", P: s})
			connected[s] = false
		case 5:
			p.Items = append(p.Items, core.Item{K: "close", P: s})
			connected[s] = false
		}
	}
	return []*core.Plan{p}
}

func permuteTopics(r *core.Rand) []string {
	t := append([]string{}, Topics...)
	for i := len(t) - 1; i > 0; i-- {
		j := r.Intn(i + 1)
		t[i], t[j] = t[j], t[i]
	}
	return t
}

func indexOfTopic(t string) int {
	for i, x := range Topics {
		if x == t {
			return i
		}
	}
	return 0
}

func runC11(t *testing.T, p *core.Plan) *core.Result {
	res := &core.Result{Check: "C11", Seed: p.Seed}
	cfg := DefaultConfig()
	cfg.Chunk = p.Knob("chunk", 0)
	cfg.ParPublishes, cfg.ParSubscribes = 128, 128
	cfg.GateBackend = p.Knob("race", 0) == 1 && p.Knob("gate", 0) == 1
	var w *World
	ptxt := core.Bubble(t, p.Seed, p.Yield, func() {
		w = NewWorld(cfg, p.Seed, res)
		sl := NewSlots(w)
		if p.Knob("race", 0) == 1 {
			runRetainedRace(w, p, res)
		} else {
			runStrict(w, sl, p, res, "C11")
		}
		if leaks := w.Teardown(); len(leaks) > 0 {
			res.Violate("C11", "C11.leak", leaks[0], fmt.Sprintf("%d goroutines still alive after teardown: %v", len(leaks), leaks))
		}
		res.Yields = rt.Yields()
		res.SimNanos = int64(core.SimNow())
	})
	if ptxt != "" {
		res.Violate("C11", "C11.panic", "bubble", ptxt)
	}
	if w != nil {
		res.Hash, res.Events, res.Steps = w.Log.Hash(), w.Log.N, w.Steps
		res.Sched = w.Log.Hash()
	}
	res.Nontrivial = res.Counters["retained_replays_expected"] > 0 || res.Counters["wills_expected"] > 0 || res.Counters["retained_races"] > 0
	if p.Seed%53 == 0 {
		res.Sample = p.Brief(14)
	}
	return res
}

// runRetainedRace: subscriptions racing retained publishes on one topic.
func runRetainedRace(w *World, p *core.Plan, res *core.Result) {
	const topic = "r/t"
	qos := packet.QOS(p.Knob("qos", 0))
	connect := func(cid string) *Peer {
		pr := w.NewPeer(cid)
		c := packet.NewConnect()
		c.ClientID, c.CleanSession = cid, true
		pr.Send(c)
		return pr
	}
	pub := connect("rp")
	var subs []*Peer
	for i := 0; i < p.Knob("subs", 1); i++ {
		subs = append(subs, connect(fmt.Sprintf("rs%d", i)))
	}
	w.Settle()
	retained := func(tag int) {
		pb := packet.NewPublish()
		pb.Message = packet.Message{Topic: topic, QOS: qos, Retain: true, Payload: MsgPayload(tag, 0)}
		if qos > 0 {
			pb.ID = pub.NextID()
		}
		pub.Send(pb)
	}
	last := 0
	if p.Knob("pre", 0) == 1 {
		last = 1
		retained(last)
		w.Settle()
	}
	// the race: everything is sent before anything is delivered
	np := p.Knob("pubs", 1)
	for i := 0; i < np; i++ {
		last = 10 + i
		retained(last)
	}
	filters := []string{"r/t", "r/+", "r/#", "#"}
	for i, s := range subs {
		sp := packet.NewSubscribe()
		sp.ID = s.NextID()
		sp.Subscriptions = []packet.Subscription{{Topic: filters[(i+int(p.Seed))%len(filters)], QOS: 2}}
		s.Send(sp)
	}
	w.Nudge(2 + w.Sched.Intn(12))
	w.Settle()
	res.Count("retained_races", 1)
	for _, s := range subs {
		// what the subscriber knows about the topic in the end: the last message
		// it received for it (replayed or live)
		known, seen := -1, map[int]int{}
		for _, e := range s.Recv {
			if q, ok := e.P.(*packet.Publish); ok && q.Message.Topic == topic {
				known = TagOf(q.Message.Payload)
				seen[known]++
			}
		}
		// (arrival order is not judged: a replay travels through the temporary
		// queue, live QoS>0 copies through the stored queue)
		_ = known
		if last != 0 && seen[last] == 0 {
			res.Violate("C11", "C11.retained-race", "stale", fmt.Sprintf("a subscription raced %d retained publishes on %s: the retained value is #%d, the subscriber received %v - the latest retained publish reached it neither live nor as a replay", np, topic, last, seen))
		}
		for tag, n := range seen {
			if n > 1 {
				res.Violate("C11", "C11.retained-race", "twice", fmt.Sprintf("retained publish #%d reached the racing subscriber %d times (live and replayed)", tag, n))
			}
		}
	}
}
