package conn

import (
	"bufio"
	"fmt"
	"net"
	"net/http"
	"net/url"

	"github.com/gorilla/websocket"

	"verif/sim/simnet"
)

// hijackRW is the minimal http.ResponseWriter that gorilla's Upgrader needs:
// it hands out the simulated net.Conn when hijacked (no http.Server involved).
type hijackRW struct {
	conn net.Conn
	brw  *bufio.ReadWriter
	h    http.Header
}

func (w *hijackRW) Header() http.Header         { return w.h }
func (w *hijackRW) Write(b []byte) (int, error) { return w.conn.Write(b) }
func (w *hijackRW) WriteHeader(int)             {}
func (w *hijackRW) Hijack() (net.Conn, *bufio.ReadWriter, error) {
	return w.conn, w.brw, nil
}

// wsPair performs a real WebSocket opening handshake over the simulated link
// (gorilla client on end A, gorilla Upgrader on end B) and returns both ends.
// pump must move bytes on the link until both sides are done.
func wsPair(link *simnet.Link, pump func(done func() bool)) (a, b *websocket.Conn, err error) {
	var ea, eb error
	da, db := make(chan struct{}), make(chan struct{})
	go func() {
		defer close(da)
		u, _ := url.Parse("ws://sim/mqtt")
		a, _, ea = websocket.NewClient(link.A, u, http.Header{"Sec-WebSocket-Protocol": {"mqtt"}}, 4096, 4096)
	}()
	go func() {
		defer close(db)
		br := bufio.NewReader(link.B)
		req, e := http.ReadRequest(br)
		if e != nil {
			eb = e
			return
		}
		up := websocket.Upgrader{Subprotocols: []string{"mqtt"}, CheckOrigin: func(*http.Request) bool { return true }}
		rw := &hijackRW{conn: link.B, brw: bufio.NewReadWriter(br, bufio.NewWriter(link.B)), h: http.Header{}}
		b, eb = up.Upgrade(rw, req, nil)
	}()
	isDone := func(c chan struct{}) bool {
		select {
		case <-c:
			return true
		default:
			return false
		}
	}
	pump(func() bool { return isDone(da) && isDone(db) })
	if !isDone(da) || !isDone(db) {
		return nil, nil, fmt.Errorf("websocket handshake did not finish")
	}
	if ea != nil {
		return nil, nil, ea
	}
	return a, b, eb
}

// pumpAll delivers everything in both directions until done() or nothing moves.
func pumpAll(link *simnet.Link) func(done func() bool) {
	return func(done func() bool) {
		for i := 0; i < 1000; i++ {
			syncWait()
			if done() {
				return
			}
			moved := false
			if n := link.A2B.InFlight(); n > 0 {
				link.A2B.Deliver(n)
				moved = true
			}
			if n := link.B2A.InFlight(); n > 0 {
				link.B2A.Deliver(n)
				moved = true
			}
			if !moved {
				return
			}
		}
	}
}
