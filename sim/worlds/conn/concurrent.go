package conn

import (
	"errors"
	"fmt"
	"sort"
	"strings"
	"sync"
	"testing"
	"time"

	"github.com/256dpi/gomqtt/packet"
	"github.com/256dpi/gomqtt/transport"
	"github.com/gorilla/websocket"

	"verif/sim/core"
	"verif/sim/rt"
	"verif/sim/simnet"
)

// C19: concurrent sends stay whole; close loses nothing; nothing hangs or
// panics after close, error or read timeout.

func init() {
	core.Register(&core.Check{ID: "C19", Expand: expandC19, Run: runC19})
}

var errInjected = errors.New("injected carrier failure")

var faultOps = []string{"", "read", "write", "close", "deadline"}

func genC19(seed uint64) *core.Plan {
	r := core.NewRand(core.Derive(seed, "plan"))
	p := &core.Plan{Check: "C19", Seed: seed}
	senders := r.Range(1, 6)
	if r.Chance(1, 5) {
		senders = r.Range(7, 16)
	}
	p.SetKnob("senders", senders)
	p.SetKnob("flush", r.Pick(0, 1, 10, 10, 50))
	p.Yield = r.Pick(0, 2, 3, 4, 8, 16)
	p.SetKnob("closeat", r.Pick(-1, r.Intn(12), r.Intn(40)))
	p.SetKnob("timeout", r.Pick(0, 0, 0, 20, 100))
	p.SetKnob("peerpkts", r.Pick(0, 1, 3))
	p.SetKnob("ws", r.Pick(0, 0, 1)) // carrier: TCP-like or WebSocket (gorilla over the simulated link)
	total := 0
	for s := 1; s <= senders && total < 60; s++ {
		n := r.Range(1, 6)
		for i := 0; i < n; i++ {
			it := core.Item{K: "send", P: s, A: r.Pick(2, 3, 4, 5, 9, 13), B: r.Pick(0, 1, 5, 50, 300, 2000, 4090, 4100, 9000)}
			if r.Chance(3, 5) {
				it.C = 1
			}
			p.Items = append(p.Items, it)
			total++
		}
	}
	if r.Chance(1, 5) {
		// a peer that stops draining its socket: writes block in the carrier; then
		// the receive side ends (read timeout or the peer's FIN), which must
		// release everybody. No Close from outside while a write is stuck.
		p.SetKnob("stall", 1)
		p.SetKnob("cap", r.Pick(16, 256, 4096))
		p.SetKnob("stallat", r.Intn(30))
		p.SetKnob("closeat", -1)
		if r.Chance(1, 2) {
			p.SetKnob("ws", 0)
		}
		if r.Chance(1, 2) {
			p.SetKnob("timeout", r.Pick(20, 100))
		} else {
			p.SetKnob("timeout", 0)
			p.SetKnob("peerfin", 1)
		}
	}
	// interleave the items of different senders in plan order
	for i := len(p.Items) - 1; i > 0; i-- {
		j := r.Intn(i + 1)
		p.Items[i], p.Items[j] = p.Items[j], p.Items[i]
	}
	return p
}

func expandC19(t *testing.T, seed uint64, tier string) []*core.Plan {
	p := genC19(seed)
	if seed%3 != 0 {
		return []*core.Plan{p}
	}
	// fault enumeration: run fault-free once to learn how many carrier calls of
	// each kind there are, then fail the k-th one for every k (quick: a seeded
	// sample of them)
	base := runC19(t, p)
	out := []*core.Plan{p}
	r := core.NewRand(core.Derive(seed, "faults"))
	for op := 1; op <= 4; op++ {
		n := int(base.Counters["calls_"+faultOps[op]])
		ks := []int{}
		for k := 1; k <= n+1; k++ {
			ks = append(ks, k)
		}
		if tier != "thorough" && len(ks) > 4 {
			for i := len(ks) - 1; i > 0; i-- {
				j := r.Intn(i + 1)
				ks[i], ks[j] = ks[j], ks[i]
			}
			ks = ks[:4]
		}
		for _, k := range ks {
			q := clonePlan(p)
			q.SetKnob("faultop", op)
			q.SetKnob("faultn", k)
			out = append(out, q)
		}
	}
	return out
}

type sendRec struct {
	sender   int
	tag      int
	async    bool
	inv, ret uint64
	err      error
	at       time.Duration
}

func tagOf(p packet.Generic) int {
	// the tag travels in the packet: publish payload "#tag#", topic "t/tag",
	// or the packet id for identified packets; see MkPacket
	switch q := p.(type) {
	case *packet.Publish:
		var t int
		fmt.Sscanf(q.Message.Topic, "t/%d", &t)
		return t
	}
	return -1
}

func runC19(t *testing.T, p *core.Plan) *core.Result {
	res := &core.Result{Check: "C19", Seed: p.Seed}
	log := core.NewLog(false)
	sched := core.NewRand(core.Derive(p.Seed, "sched"))
	nS := p.Knob("senders", 1)
	flush := time.Duration(p.Knob("flush", 10)) * time.Millisecond
	closeAt := p.Knob("closeat", -1)
	timeout := time.Duration(p.Knob("timeout", 0)) * time.Millisecond
	faultOp, faultN := faultOps[p.Knob("faultop", 0)], p.Knob("faultn", 0)
	ws := p.Knob("ws", 0) == 1
	var wsBytes []byte
	stall, stallAt, peerFin := p.Knob("stall", 0) == 1, p.Knob("stallat", 0), p.Knob("peerfin", 0) == 1
	finSent := false

	// per-sender work lists; every packet is a publish-like packet carrying a tag
	work := make([][]core.Item, nS+1)
	for _, it := range p.Items {
		if it.P >= 1 && it.P <= nS {
			work[it.P] = append(work[it.P], it)
		}
	}
	recs := make([][]sendRec, nS+1)
	var hmu sync.Mutex
	faultFired := false
	var faultAt uint64
	wireAtCarrierClose := -1
	var closeInv, closeRet uint64
	var closeErr error
	closeReturnedAt := time.Duration(-1)
	var rcvRecs []recvRec
	rcvDone := false
	sendersDone := 0
	var probes []string
	var wire []byte
	var peerSent []packet.Generic
	steps := 0
	var simEnd time.Duration
	leaked := 0
	var leakStacks []string

	ptxt := core.Bubble(t, p.Seed, p.Yield, func() {
		link := simnet.NewLink(1)
		link.A2B.Record = true
		if stall {
			link.A2B.Cap = p.Knob("cap", 256)
		}
		var calls [5]int
		var wsA, wsB *websocket.Conn
		if ws {
			var err error
			wsA, wsB, err = wsPair(link, pumpAll(link))
			if err != nil {
				res.Violate("C19", "C19.ws-handshake", "failed", err.Error())
				return
			}
			// the peer's reader: concatenated binary message payloads are the MQTT stream
			go func() {
				for {
					mt, data, err := wsB.ReadMessage()
					if err != nil {
						return
					}
					if mt == websocket.BinaryMessage {
						wsBytes = append(wsBytes, data...)
					}
				}
			}()
		}
		link.A.OnCall = func(op string, n, _ int) {
			hmu.Lock()
			for i, o := range faultOps {
				if o == op {
					calls[i] = n
				}
			}
			if op == "close" && wireAtCarrierClose < 0 {
				wireAtCarrierClose = link.A2B.WrittenBytes()
			}
			hmu.Unlock()
		}
		link.A.Fault = func(op string, n int) error {
			if faultOp != "" && op == faultOp && n == faultN {
				hmu.Lock()
				faultFired = true
				faultAt = rt.Tick()
				hmu.Unlock()
				return errInjected
			}
			return nil
		}
		var a transport.Conn = transport.NewNetConn(link.A)
		if ws {
			a = transport.NewWebSocketConn(wsA)
		}
		a.SetMaxWriteDelay(flush)
		if timeout > 0 {
			a.SetReadTimeout(timeout)
		}
		// receiver on A
		rdone := make(chan struct{})
		go func() {
			defer close(rdone)
			for {
				pkt, err := a.Receive()
				rcvRecs = append(rcvRecs, recvRec{pkt, err, rt.Tick()})
				if err != nil {
					return
				}
			}
		}()
		// senders
		gates := make([]chan struct{}, nS+1)
		sdone := make([]chan struct{}, nS+1)
		left := make([]int, nS+1)
		for s := 1; s <= nS; s++ {
			s := s
			gates[s] = make(chan struct{}, 64)
			sdone[s] = make(chan struct{})
			left[s] = len(work[s])
			go func() {
				defer close(sdone[s])
				for i, it := range work[s] {
					<-gates[s]
					tag := s*1000 + i
					pkt := MkPacket(it.A, it.B, tag)
					if pb, ok := pkt.(*packet.Publish); ok {
						pb.Message.Topic = fmt.Sprintf("t/%d", tag)
					} else {
						pb := packet.NewPublish()
						pb.Message.Topic = fmt.Sprintf("t/%d", tag)
						pkt = pb
					}
					inv := rt.Tick()
					err := a.Send(pkt, it.C == 1)
					recs[s] = append(recs[s], sendRec{s, tag, it.C == 1, inv, rt.Tick(), err, core.SimNow()})
				}
			}()
		}
		closed := false
		cdone := make(chan struct{})
		doClose := func() {
			closed = true
			go func() {
				defer close(cdone)
				closeInv = rt.Tick()
				closeErr = a.Close()
				closeRet = rt.Tick()
				closeReturnedAt = core.SimNow()
			}()
		}
		isDone := func(c chan struct{}) bool {
			select {
			case <-c:
				return true
			default:
				return false
			}
		}
		peerLeft := p.Knob("peerpkts", 0)
		for steps = 0; steps < 4000; steps++ {
			syncWait()
			if closeAt >= 0 && steps >= closeAt && !closed {
				// Close comes from a third goroutine at an arbitrary moment: in half
				// of the cases some senders are released in the same step, before
				// the closer is started, so that Close can meet a Send in progress
				// (lock-level yields decide how far the sender has got)
				if sched.Chance(1, 2) {
					for i, k := 0, 1+sched.Intn(3); i < k; i++ {
						s := 1 + sched.Intn(nS)
						if left[s] > 0 {
							left[s]--
							gates[s] <- struct{}{}
							log.Ev("release %d", s)
							res.Count("close_meets_released_sender", 1)
						}
					}
				}
				doClose()
				log.Ev("close")
				continue
			}
			var acts []string
			var w []int
			rem := 0
			for s := 1; s <= nS; s++ {
				rem += left[s]
			}
			if rem > 0 {
				acts, w = append(acts, "release"), append(w, 10)
			}
			if peerLeft > 0 {
				acts, w = append(acts, "peer"), append(w, 2)
			}
			if link.B2A.InFlight() > 0 {
				acts, w = append(acts, "deliver"), append(w, 4)
			}
			if ws && link.A2B.InFlight() > 0 && !(stall && steps >= stallAt) {
				acts, w = append(acts, "deliver-out"), append(w, 3)
			}
			if stall && !ws && steps < stallAt && link.A2B.InFlight() > 0 {
				acts, w = append(acts, "drain"), append(w, 6)
			}
			if stall && peerFin && steps >= stallAt && !finSent {
				acts, w = append(acts, "peerfin"), append(w, 3)
			}
			if link.B2A.FinPending() {
				acts, w = append(acts, "fin"), append(w, 4)
			}
			if rt.NextWake() != 0 && (rem == 0 || sched.Chance(1, 3)) {
				acts, w = append(acts, "timer"), append(w, 3)
			}
			if len(acts) == 0 {
				break
			}
			burst := 1
			if sched.Chance(1, 3) {
				burst = 2 + sched.Intn(2)
			}
			for b := 0; b < burst; b++ {
				switch acts[sched.Weighted(w)] {
				case "release":
					k := 1 + sched.Intn(3)
					if sched.Chance(1, 4) {
						k = nS
					}
					for i := 0; i < k; i++ {
						s := 1 + sched.Intn(nS)
						if left[s] > 0 {
							left[s]--
							gates[s] <- struct{}{}
							log.Ev("release %d", s)
						}
					}
				case "peer":
					peerLeft--
					pk := MkPacket(2+sched.Intn(3), sched.Pick(0, 10, 5000), 900000+peerLeft)
					peerSent = append(peerSent, pk)
					_, _ = link.B2A.Write(Enc(pk))
					log.Ev("peer writes %s", pk.Type())
				case "deliver":
					n := link.B2A.InFlight()
					if sched.Chance(1, 2) {
						n = 1 + sched.Intn(n)
					}
					link.B2A.Deliver(n)
					log.Ev("deliver b>a %d", n)
				case "deliver-out":
					if n := link.A2B.InFlight(); n > 0 {
						if sched.Chance(1, 2) {
							n = 1 + sched.Intn(n)
						}
						link.A2B.Deliver(n)
						log.Ev("deliver a>b %d", n)
					}
				case "drain":
					if n := link.A2B.InFlight(); n > 0 {
						link.A2B.Deliver(1 + sched.Intn(n))
						log.Ev("peer drains")
					}
				case "peerfin":
					if !finSent {
						finSent = true
						link.B2A.CloseWrite()
						log.Ev("peer half-closes")
					}
				case "fin":
					if link.B2A.FinPending() {
						link.B2A.DeliverFIN()
						log.Ev("fin b>a")
					}
				case "timer":
					if b == 0 {
						core.AdvanceToNextTimer(time.Hour)
						log.Ev("timer @%v", core.SimNow())
						res.Count("timer_advances", 1)
					}
				}
			}
		}
		syncWait()
		if stall && !isDone(rdone) {
			// whatever kept the receive side alive (a failed deadline call, no
			// timeout configured): the stalled peer finally goes away, which ends
			// the receive side and thereby must release a stuck write
			if !finSent {
				finSent = true
				link.B2A.CloseWrite()
			}
			for i := 0; i < 100 && !isDone(rdone); i++ {
				if n := link.B2A.InFlight(); n > 0 {
					link.B2A.Deliver(n)
				} else if link.B2A.FinPending() {
					link.B2A.DeliverFIN()
				}
				syncWait()
			}
			log.Ev("peer gone")
		}
		if !closed && !isDone(rdone) {
			// a Send that returned an error has closed the carrier: the pending
			// Receive must have come back by itself, nobody needs to call Close
			failed := false
			for s := 1; s <= nS; s++ {
				for _, r := range recs[s] {
					if r.err != nil {
						failed = true
					}
				}
			}
			if failed {
				res.Count("probe_receive_after_send_error", 1)
				res.Violate("C19", "C19.blocked", "receive-after-send-error", "a Send returned an error, but the pending Receive is still blocked (the carrier was not closed)")
			}
		}
		if !closed && isDone(rdone) {
			// the connection already failed on the receive side (error, EOF or
			// expired read timeout): a flushed send must fail at once
			if e := a.Send(packet.NewPingreq(), false); e == nil {
				res.Violate("C19", "C19.send-after-error", "after-receive-error", fmt.Sprintf("flushed Send succeeded after Receive had failed with %v", rcvRecs[len(rcvRecs)-1].err))
			}
			res.Count("probe_send_after_receive_error", 1)
		}
		if !closed {
			doClose()
			log.Ev("final close")
			syncWait()
		}
		// Close returned: a pending Receive must have been unblocked by it (judged
		// before the probes below, whose failing sends close the carrier themselves)
		if isDone(cdone) && !isDone(rdone) {
			res.Violate("C19", "C19.blocked", "receive-after-close", fmt.Sprintf("Close returned (%v) but the pending Receive is still blocked", closeErr))
		}
		// ---- probes after close returned
		if isDone(cdone) {
			// a flushed send fails at once
			e1 := a.Send(packet.NewPingreq(), false)
			probes = append(probes, fmt.Sprintf("sync-send-after-close:%v", e1 != nil))
			// buffered sends fail no later than the first call after the flush delay elapsed
			e2 := a.Send(packet.NewPingreq(), true)
			time.Sleep(flush + time.Millisecond)
			syncWait()
			e3 := a.Send(packet.NewPingreq(), true)
			probes = append(probes, fmt.Sprintf("async-send-after-close:%v/%v", e2 != nil, e3 != nil))
			if e3 == nil {
				res.Violate("C19", "C19.send-after-close", "buffered", fmt.Sprintf("buffered Send still succeeds %v after Close returned and a previous buffered Send (flush delay %v)", flush+time.Millisecond, flush))
			}
			if e1 == nil {
				res.Violate("C19", "C19.send-after-close", "flushed", "flushed Send succeeded after Close had returned")
			}
		}
		syncWait()
		rcvDone = isDone(rdone)
		if rcvDone {
			// a further Receive after the connection ended must fail, not block
			pdone := make(chan error, 1)
			go func() {
				_, err := a.Receive()
				pdone <- err
			}()
			syncWait()
			select {
			case err := <-pdone:
				if err == nil {
					res.Violate("C19", "C19.receive-after-end", "packet", "Receive returned a packet without error after the connection had ended")
				}
			default:
				time.Sleep(time.Hour)
				syncWait()
				select {
				case <-pdone:
				default:
					res.Violate("C19", "C19.blocked", "receive-after-end", "Receive on an ended connection is still blocked after one virtual hour")
					link.B2A.Cut(nil)
				}
			}
		}
		// release whatever is still gated so that sender goroutines can finish
		for s := 1; s <= nS; s++ {
			for left[s] > 0 {
				left[s]--
				gates[s] <- struct{}{}
			}
		}
		syncWait()
		time.Sleep(time.Hour) // bounded liveness: every timer has fired by now
		syncWait()
		for s := 1; s <= nS; s++ {
			if isDone(sdone[s]) {
				sendersDone++
			}
		}
		rcvDone = isDone(rdone)
		if !isDone(cdone) {
			res.Violate("C19", "C19.blocked", "close", fmt.Sprintf("Close is still blocked after one virtual hour; goroutines: %v", core.Leaked()))
		}
		if ws {
			// drain what the connection wrote towards the peer
			for i := 0; i < 1000; i++ {
				syncWait()
				if n := link.A2B.InFlight(); n > 0 {
					link.A2B.Deliver(n)
					continue
				}
				if link.A2B.FinPending() {
					link.A2B.DeliverFIN()
					continue
				}
				break
			}
			syncWait()
			wire = append([]byte{}, wsBytes...)
			wireAtCarrierClose = -1
		} else {
			wire = append([]byte{}, link.A2B.Wire...)
		}
		for i, o := range faultOps {
			if o != "" {
				res.Count("calls_"+o, int64(calls[i]))
			}
		}
		if stall {
			res.Count("stalled_peer_runs", 1)
			if link.A2B.Blocked > 0 {
				res.Count("writes_blocked_on_full_socket", 1)
			}
		}
		simEnd = core.SimNow()
		res.Yields = rt.Yields()
		leakStacks = core.Leaked()
		leaked = len(leakStacks)
		if !rcvDone {
			link.B2A.Cut(nil)
			syncWait()
		}
	})
	res.Steps = steps
	res.SimNanos = int64(simEnd)
	if ptxt != "" {
		res.Violate("C19", "C19.panic", "bubble", ptxt)
	}
	if sendersDone != nS {
		res.Violate("C19", "C19.blocked", "send", fmt.Sprintf("%d of %d senders still blocked in Send after one virtual hour", nS-sendersDone, nS))
	}
	if !rcvDone {
		res.Violate("C19", "C19.blocked", "receive", "a pending Receive was not unblocked by Close (still blocked after one virtual hour)")
	}
	if leaked > 0 && rcvDone && sendersDone == nS {
		res.Violate("C19", "C19.leak", "goroutine", fmt.Sprintf("%d goroutines of the connection are still alive after everything ended: %v", leaked, leakStacks))
	}

	/* history oracles */
	var all []sendRec
	for _, l := range recs {
		all = append(all, l...)
	}
	sort.Slice(all, func(i, j int) bool { return all[i].inv < all[j].inv })
	okTags := map[int]sendRec{}
	firstErr := uint64(0)
	for _, r := range all {
		log.AddAt(r.inv, fmt.Sprintf("s%d tag %d async=%v -> %v @%d", r.sender, r.tag, r.async, r.err, r.ret))
		if r.err == nil {
			okTags[r.tag] = r
		} else if firstErr == 0 || r.ret < firstErr {
			firstErr = r.ret
		}
	}
	// decode the wire
	var onWire []int
	rest := wire
	partial := false
	for len(rest) > 0 {
		l, ty := packet.DetectPacket(rest)
		if l <= 0 || l > len(rest) {
			partial = true
			break
		}
		pk, err := ty.New()
		if err == nil {
			_, err = pk.Decode(rest[:l])
		}
		if err != nil {
			res.Violate("C19", "C19.intact", "undecodable", fmt.Sprintf("the peer cannot decode the bytes at wire offset %d: %v", len(wire)-len(rest), err))
			break
		}
		rest = rest[l:]
		if pk.Type() == packet.PINGREQ {
			continue // probe
		}
		tg := tagOf(pk)
		onWire = append(onWire, tg)
	}
	if partial && !faultFired && closeErr == nil {
		res.Violate("C19", "C19.intact", "partial", fmt.Sprintf("the wire ends inside a packet (%d trailing bytes) although no carrier call failed", len(rest)))
	}
	seen := map[int]bool{}
	lastOf := map[int]int{}
	for _, tg := range onWire {
		if seen[tg] {
			res.Violate("C19", "C19.intact", "duplicate", fmt.Sprintf("packet tag %d appears twice on the wire", tg))
		}
		seen[tg] = true
		s := tg / 1000
		if s < 1 || s > nS || tg%1000 >= len(work[s]) {
			res.Violate("C19", "C19.intact", "unknown", fmt.Sprintf("packet tag %d on the wire was never sent", tg))
			continue
		}
		if l, ok := lastOf[s]; ok && tg < l {
			res.Violate("C19", "C19.order", "sender", fmt.Sprintf("sender %d: packet %d reached the wire after packet %d", s, tg, l))
		}
		lastOf[s] = tg
	}
	// close loses nothing: accepted before Close was called => on the wire
	// (only if the connection had not already failed: after an error or an
	// expired read timeout the carrier is closed without flushing, by design)
	failedBefore := false
	for _, r := range rcvRecs {
		if r.err != nil && r.seq < closeInv {
			failedBefore = true
		}
	}
	if firstErr != 0 && firstErr < closeInv {
		failedBefore = true
	}
	if !faultFired && closeInv != 0 && !failedBefore {
		for tg, r := range okTags {
			if r.ret < closeInv && !seen[tg] {
				res.Violate("C19", "C19.close-flushes", "lost", fmt.Sprintf("Send of tag %d (async=%v) returned nil at event %d, Close was called at %d, the packet never reached the wire", tg, r.async, r.ret, closeInv))
			}
		}
		// and it was there before the carrier was closed
		if wireAtCarrierClose >= 0 {
			n := 0
			rest := wire
			if wireAtCarrierClose < len(rest) {
				rest = rest[:wireAtCarrierClose]
			}
			atClose := map[int]bool{}
			for len(rest) > 0 {
				l, ty := packet.DetectPacket(rest)
				if l <= 0 || l > len(rest) {
					break
				}
				pk, _ := ty.New()
				if _, err := pk.Decode(rest[:l]); err == nil {
					atClose[tagOf(pk)] = true
				}
				rest = rest[l:]
				n++
			}
			for tg, r := range okTags {
				if r.ret < closeInv && seen[tg] && !atClose[tg] {
					res.Violate("C19", "C19.close-flushes", "after-carrier-close", fmt.Sprintf("tag %d accepted before Close reached the wire only after the carrier had been closed", tg))
				}
			}
		}
	}
	// without any fault every accepted packet is on the wire, and nothing else
	if !faultFired && closeErr == nil && !failedBefore {
		for tg, r := range okTags {
			if !seen[tg] && (closeInv == 0 || r.ret < closeInv) {
				res.Violate("C19", "C19.close-flushes", "lost", fmt.Sprintf("accepted tag %d never reached the wire", tg))
			}
		}
	}
	// after a flushed send failed, later flushed sends fail too (no resurrection)
	for _, r := range all {
		if firstErr != 0 && r.inv > firstErr && !r.async && r.err == nil {
			res.Violate("C19", "C19.send-after-error", "flushed", fmt.Sprintf("flushed Send of tag %d succeeded at event %d after an earlier Send had failed at %d", r.tag, r.inv, firstErr))
		}
		if closeRet != 0 && r.inv > closeRet && !r.async && r.err == nil {
			res.Violate("C19", "C19.send-after-close", "flushed", fmt.Sprintf("flushed Send of tag %d succeeded after Close returned", r.tag))
		}
	}
	var firstRecvErr uint64
	for _, r := range rcvRecs {
		if r.err != nil {
			firstRecvErr = r.seq
			break
		}
	}
	for _, r := range all {
		if firstRecvErr != 0 && r.inv > firstRecvErr && !r.async && r.err == nil {
			res.Violate("C19", "C19.send-after-error", "after-receive-error", fmt.Sprintf("flushed Send of tag %d succeeded at event %d after Receive had failed at %d", r.tag, r.inv, firstRecvErr))
		}
	}
	// receive side: what was received is a prefix of what the peer sent
	ngot := 0
	for _, r := range rcvRecs {
		if r.err != nil {
			break
		}
		if ngot >= len(peerSent) || !SamePacket(r.pkt, peerSent[ngot]) {
			res.Violate("C19", "C19.receive", "content", fmt.Sprintf("received packet %d is %s, the peer sent %d packets", ngot, brief(r.pkt), len(peerSent)))
			break
		}
		ngot++
	}
	if faultFired {
		res.Count("fault_"+faultOp, 1)
	}
	if ws {
		res.Count("websocket_runs", 1)
	}
	_ = faultAt
	if closeReturnedAt >= 0 {
		res.Count("closes", 1)
	}
	res.Count("sends", int64(len(all)))
	res.Count("sends_failed", int64(len(all)-len(okTags)))
	res.Count("packets_received", int64(ngot))
	if len(probes) > 0 {
		res.Count("post_close_probes", 1)
	}
	overlap := 0
	var maxRet uint64
	var sch strings.Builder
	for _, r := range all {
		if r.inv < maxRet {
			overlap++
		}
		if r.ret > maxRet {
			maxRet = r.ret
		}
		fmt.Fprintf(&sch, "%x", r.sender)
	}
	res.Count("overlapping_sends", int64(overlap))
	res.Hash = log.Hash()
	res.Events = log.N
	res.Sched = fmt.Sprintf("%s/%d/%s%d", sch.String(), overlap, faultOp, faultN)
	res.Nontrivial = nS >= 2 && len(all) >= 2 || faultFired
	if p.Seed%173 == 0 && faultOp == "" {
		res.Sample = p.Brief(8)
	}
	return res
}
