package conn

import "testing/synctest"

// syncWait blocks until every other goroutine of the bubble is durably blocked.
func syncWait() { synctest.Wait() }
