package conn

import (
	"bytes"
	"errors"
	"fmt"
	"io"
	"testing"
	"time"

	"github.com/256dpi/gomqtt/packet"
	"github.com/256dpi/gomqtt/transport"

	"verif/sim/core"
	"verif/sim/rt"
	"verif/sim/simnet"
)

// C03: stream framing under any fragmentation.

func init() {
	core.Register(&core.Check{ID: "C03", Expand: expandC03, Run: runC03})
}

var sizeBias = []int{0, 0, 1, 2, 10, 60, 120, 121, 122, 123, 124, 125, 126, 127, 128, 129, 130, 200, 1000,
	4070, 4080, 4085, 4088, 4090, 4091, 4092, 4093, 4094, 4095, 4096, 4097, 4098, 4100, 4110, 8190, 8200,
	16370, 16376, 16378, 16379, 16380, 16381, 16382, 16383, 16384, 16385, 16390, 40000, 70000}

func genSends(r *core.Rand, p *core.Plan, n int, small bool, limit int) {
	for i := 0; i < n; i++ {
		it := core.Item{K: "send", A: r.Intn(14), D: 1 + r.Intn(60000)}
		if small {
			it.B = r.Intn(6)
		} else if limit > 0 && r.Chance(1, 4) {
			it.A = 2
			it.B = limit - 30 + r.Intn(40)
			if it.B < 0 {
				it.B = 0
			}
		} else {
			it.B = sizeBias[r.Intn(len(sizeBias))]
		}
		if r.Chance(1, 2) {
			it.C = 1 // async
		}
		p.Items = append(p.Items, it)
	}
}

func wireLen(p *core.Plan) int {
	n := 0
	for _, it := range p.Items {
		if it.K == "send" {
			n += len(Enc(MkPacket(it.A, it.B, it.D)))
		}
	}
	return n
}

func expandC03(_ *testing.T, seed uint64, tier string) []*core.Plan {
	r := core.NewRand(core.Derive(seed, "plan"))
	p := &core.Plan{Check: "C03", Seed: seed}
	p.SetKnob("flush", r.Pick(0, 1, 10, 10, 50))
	p.SetKnob("split1", -1)
	p.SetKnob("split2", -1)
	class := seed % 8
	if class == 7 {
		return expandC03WS(seed, tier)
	}
	switch {
	case class == 0:
		// short stream: every split point (and, thorough, every pair) and every
		// truncation offset is enumerated instead of sampled
		genSends(r, p, r.Range(1, 3), true, 0)
		L := wireLen(p)
		if L > 64 {
			p.Items = p.Items[:1]
			L = wireLen(p)
		}
		var out []*core.Plan
		for i := 0; i <= L; i++ {
			q := clonePlan(p)
			q.SetKnob("split1", i)
			out = append(out, q)
			t := clonePlan(p)
			t.SetKnob("split1", i)
			t.SetKnob("trunc", 1)
			out = append(out, t)
		}
		if tier == "thorough" && L <= 48 {
			for i := 0; i <= L; i++ {
				for j := i + 1; j <= L; j++ {
					q := clonePlan(p)
					q.SetKnob("split1", i)
					q.SetKnob("split2", j)
					out = append(out, q)
				}
			}
		}
		return out
	case class == 1:
		// read limit
		limit := r.Pick(64, 128, 300, 4096, 5000, 20000)
		p.SetKnob("limit", limit)
		genSends(r, p, r.Range(1, 8), false, limit)
	case class == 2:
		// random truncation / cut of a longer stream
		genSends(r, p, r.Range(1, 10), false, 0)
		L := wireLen(p)
		p.SetKnob("cutat", r.Intn(L+1))
		p.SetKnob("trunc", r.Intn(2))
	case class == 3 && r.Chance(1, 6):
		// remaining length around the 3/4-byte varint boundary (2 MiB): the header
		// needs the full five-byte peek
		p.Items = append(p.Items, core.Item{K: "send", A: 2, B: 2097152 - 14 + r.Intn(12), C: r.Intn(2), D: 1 + r.Intn(60000)})
		if r.Chance(1, 2) {
			p.Items = append(p.Items, core.Item{K: "send", A: 5, D: 7})
		}
		p.SetKnob("huge", 1)
	default:
		n := r.Range(1, 12)
		if tier == "thorough" {
			n = r.Range(1, 40)
		}
		genSends(r, p, n, r.Chance(1, 5), 0)
	}
	p.Yield = r.Pick(0, 0, 3, 8)
	p.SetKnob("burst", r.Pick(0, 0, 1))
	p.SetKnob("chunk", r.Pick(1, 2, 3, 5, 7, 64, 4096, 0, -1, -1, -1))
	if p.Knob("huge", 0) == 1 {
		p.SetKnob("chunk", r.Pick(0, 65536, 4096))
	}
	p.SetKnob("maxread", r.Pick(0, 0, 0, 1, 2, 3, 17, 4095))
	if p.Knob("huge", 0) == 1 {
		p.SetKnob("maxread", r.Pick(0, 4095, 65536))
	}
	if c := p.Knob("chunk", 0); c > 0 && c < 64 {
		// byte-wise delivery: keep the stream short enough to finish, the
		// 4096-byte bufio boundary stays inside the range
		for i := range p.Items {
			if p.Items[i].B > 4200 {
				p.Items[i].B = 4000 + p.Items[i].B%200
			}
		}
		if len(p.Items) > 6 {
			p.Items = p.Items[:6]
		}
	}
	return []*core.Plan{p}
}

func clonePlan(p *core.Plan) *core.Plan {
	q := *p
	q.Items = append([]core.Item{}, p.Items...)
	q.Knobs = map[string]int{}
	for k, v := range p.Knobs {
		q.Knobs[k] = v
	}
	return &q
}

type recvRec struct {
	pkt packet.Generic
	err error
	seq uint64
}

func runC03(t *testing.T, p *core.Plan) *core.Result {
	if p.Knob("ws", 0) != 0 {
		return runC03WS(t, p)
	}
	res := &core.Result{Check: "C03", Seed: p.Seed}
	log := core.NewLog(false)
	sched := core.NewRand(core.Derive(p.Seed, "sched"))
	flush := time.Duration(p.Knob("flush", 10)) * time.Millisecond
	limit := p.Knob("limit", 0)
	chunk := p.Knob("chunk", 0)
	split1, split2 := p.Knob("split1", -1), p.Knob("split2", -1)
	cutat, trunc := p.Knob("cutat", -1), p.Knob("trunc", 0)
	if split1 >= 0 && trunc == 1 {
		cutat = split1
	}

	var sent []packet.Generic
	var sentAsync []bool
	var recvd []recvRec
	var wire []byte
	var consumedAtOversize = -1
	wireBroken := false
	receiverDone := false
	steps := 0
	var simEnd time.Duration

	ptxt := core.Bubble(t, p.Seed, p.Yield, func() {
		link := simnet.NewLink(1)
		link.A2B.Record = true
		link.B.MaxRead = p.Knob("maxread", 0)
		snd := transport.NewNetConn(link.A)
		rcv := transport.NewNetConn(link.B)
		snd.SetMaxWriteDelay(flush)
		if limit > 0 {
			rcv.SetReadLimit(int64(limit))
		}
		done := make(chan struct{})
		go func() {
			defer close(done)
			for {
				pkt, err := rcv.Receive()
				recvd = append(recvd, recvRec{pkt, err, rt.Tick()})
				if err != nil {
					return
				}
			}
		}()
		wait := func() { syncWait() }
		next := 0
		closed := false
		finished := func() bool {
			select {
			case <-done:
				return true
			default:
				return false
			}
		}
		deliver := func(n int) {
			if cutat >= 0 && link.A2B.Delivered+n > cutat {
				n = cutat - link.A2B.Delivered
			}
			if n > 0 {
				k := link.A2B.Deliver(n)
				log.Ev("deliver %d", k)
			}
			if cutat >= 0 && link.A2B.Delivered >= cutat && (closed || link.A2B.Written > cutat) {
				if !link.A2B.Broken() && !link.A2B.FinDone() {
					if trunc == 1 {
						link.A2B.Truncate()
						log.Ev("truncate at %d", cutat)
					} else {
						link.A2B.Cut(nil)
						log.Ev("cut at %d", cutat)
					}
					res.Count("fault_stream_cut", 1)
				}
			}
		}
		doSend := func() {
			it := p.Items[next]
			next++
			pkt := MkPacket(it.A, it.B, it.D)
			err := snd.Send(pkt, it.C == 1)
			log.Ev("send %s async=%d -> %v", pkt.Type(), it.C, err)
			if err == nil {
				sent = append(sent, pkt)
				sentAsync = append(sentAsync, it.C == 1)
			} else {
				res.Count("send_errors", 1)
			}
		}
		for steps = 0; steps < 200000; steps++ {
			wait()
			if finished() {
				break
			}
			if split1 >= 0 {
				// forced schedule: everything is sent and flushed first, then the
				// stream is delivered in the enumerated pieces
				if next < len(p.Items) {
					doSend()
					continue
				}
				if !closed {
					_ = snd.Close()
					closed = true
					log.Ev("close")
					continue
				}
				d := link.A2B.Delivered
				switch {
				case d < split1:
					deliver(split1 - d)
				case split2 >= 0 && d < split2:
					deliver(split2 - d)
				case link.A2B.InFlight() > 0:
					deliver(link.A2B.InFlight())
				case link.A2B.FinPending():
					link.A2B.DeliverFIN()
					log.Ev("fin")
				default:
					if cutat >= 0 {
						deliver(0)
					}
					if !core.AdvanceToNextTimer(time.Hour) {
						goto out
					}
				}
				continue
			}
			// seeded schedule
			var acts []string
			var w []int
			if next < len(p.Items) {
				acts, w = append(acts, "send"), append(w, 6)
			} else if !closed {
				acts, w = append(acts, "close"), append(w, 2)
			}
			if link.A2B.InFlight() > 0 && !link.A2B.Broken() {
				acts, w = append(acts, "deliver"), append(w, 8)
			}
			if link.A2B.FinPending() {
				acts, w = append(acts, "fin"), append(w, 4)
			}
			if rt.NextWake() != 0 {
				acts, w = append(acts, "timer"), append(w, 3)
			}
			if len(acts) == 0 {
				if cutat >= 0 {
					deliver(0)
					if link.A2B.Broken() || link.A2B.FinDone() {
						continue
					}
				}
				break
			}
			pick := acts[sched.Weighted(w)]
			if p.Knob("burst", 0) == 1 && pick == "deliver" && next < len(p.Items) && sched.Chance(1, 2) {
				// deliver and send in the same step: receiver and sender are runnable together
				n := link.A2B.InFlight()
				if chunk > 0 && n > chunk {
					n = chunk
				}
				deliver(n)
				pick = "send"
			}
			switch pick {
			case "send":
				doSend()
			case "close":
				err := snd.Close()
				closed = true
				log.Ev("close -> %v", err)
			case "deliver":
				n := link.A2B.InFlight()
				switch {
				case chunk > 0:
					if n > chunk {
						n = chunk
					}
				case chunk < 0:
					n = 1 + sched.Intn(n)
					if sched.Chance(1, 2) && n > 9 {
						n = 1 + sched.Intn(9)
					}
				}
				deliver(n)
			case "fin":
				link.A2B.DeliverFIN()
				log.Ev("fin")
			case "timer":
				core.AdvanceToNextTimer(time.Hour)
				log.Ev("timer @%v", core.SimNow())
				res.Count("flush_timer_advances", 1)
			}
		}
	out:
		wait()
		receiverDone = finished()
		if !receiverDone {
			// bounded liveness: give every timer a chance, then look again
			time.Sleep(time.Hour)
			wait()
			receiverDone = finished()
		}
		_ = snd.Close() // flushes whatever buffered sends are still pending
		wait()
		wireBroken = link.A2B.Broken() || link.A2B.FinDone() && cutat >= 0
		wire = append([]byte{}, link.A2B.Wire...)
		consumedAtOversize = link.A2B.Delivered - link.A2B.Readable()
		simEnd = core.SimNow()
		if !receiverDone {
			// unblock the receiver so that the bubble can end
			link.A2B.Cut(nil)
			_ = rcv.Close()
			wait()
		}
		_ = snd.Close()
		res.Yields = rt.Yields()
	})
	res.Steps = steps
	res.SimNanos = int64(simEnd)
	if ptxt != "" {
		res.Violate("C03", "C03.panic", "bubble", ptxt)
	}

	/* oracles */
	// (2) the wire is exactly the concatenation of the encodings
	var want []byte
	var offs []int
	for _, s := range sent {
		offs = append(offs, len(want))
		want = append(want, Enc(s)...)
	}
	if wireBroken && len(wire) <= len(want) && bytes.Equal(wire, want[:len(wire)]) {
		// the link was cut: later writes were refused, the wire is a prefix
	} else if !bytes.Equal(wire, want) {
		i := 0
		for i < len(wire) && i < len(want) && wire[i] == want[i] {
			i++
		}
		res.Violate("C03", "C03.wire-bytes", "differs",
			fmt.Sprintf("wire has %d bytes, concatenated encodings %d; first difference at offset %d", len(wire), len(want), i))
	}
	if !receiverDone {
		res.Violate("C03", "C03.receive-hangs", "receiver", "Receive still blocked one virtual hour after the stream ended")
	}
	// which packets must come out
	end := len(want)
	if cutat >= 0 && cutat < end {
		end = cutat
	}
	nexp := 0
	oversize := -1
	for i, s := range sent {
		l := len(Enc(s))
		if offs[i]+l > end {
			break
		}
		if limit > 0 && l > limit {
			oversize = i
			break
		}
		nexp++
	}
	var got []packet.Generic
	var ferr error
	for _, r := range recvd {
		if r.err != nil {
			ferr = r.err
			break
		}
		got = append(got, r.pkt)
	}
	// (1) same packets, same order, compared after the whole stream was consumed
	if len(got) != nexp {
		res.Violate("C03", "C03.packets", "count",
			fmt.Sprintf("receiver got %d packets, expected %d (sent %d, stream end %d of %d, oversize idx %d); final error %v", len(got), nexp, len(sent), end, len(want), oversize, ferr))
	}
	for i := 0; i < len(got) && i < nexp; i++ {
		if !SamePacket(got[i], sent[i]) {
			res.Violate("C03", "C03.packets", "content",
				fmt.Sprintf("packet %d received as %s, sent as %s", i, brief(got[i]), brief(sent[i])))
			break
		}
	}
	if receiverDone {
		switch {
		case oversize >= 0 && nexp == oversize:
			// (3) refused before it is buffered
			if !errors.Is(ferr, packet.ErrReadLimitExceeded) {
				res.Violate("C03", "C03.read-limit", "error", fmt.Sprintf("packet %d of %d bytes exceeds the limit %d but the receiver ended with %v", oversize, len(Enc(sent[oversize])), limit, ferr))
			}
			if max := offs[oversize] + 5 + 4096; consumedAtOversize > max {
				res.Violate("C03", "C03.read-limit", "buffered", fmt.Sprintf("receiver pulled %d bytes from the carrier although the oversized packet starts at %d (limit %d)", consumedAtOversize, offs[oversize], limit))
			}
			res.Count("oversize_refused", 1)
		case ferr == nil:
			res.Violate("C03", "C03.stream-end", "no-error", "the stream ended but Receive reported no error")
		default:
			atBoundary := false
			for i := range sent {
				if offs[i] == end {
					atBoundary = true
				}
			}
			if end == len(want) {
				atBoundary = true
			}
			cleanEnd := (cutat < 0 || trunc == 1)
			if cleanEnd && atBoundary && ferr != io.EOF {
				res.Violate("C03", "C03.stream-end", "eof", fmt.Sprintf("stream ended cleanly between packets at %d but Receive reported %v", end, ferr))
			}
			if cleanEnd && !atBoundary {
				res.Count("ended_inside_packet", 1)
				if ferr == io.EOF {
					// an error is required; plain EOF would be indistinguishable from a clean end
					res.Violate("C03", "C03.stream-end", "mid-packet-eof", fmt.Sprintf("stream ended inside a packet at %d and Receive reported a clean EOF", end))
				}
			}
		}
	}
	res.Hash = log.Hash()
	res.Events = log.N
	res.Nontrivial = len(sent) >= 1 && (link2(chunk, split1) || len(sent) >= 2)
	res.Sched = log.Hash()
	res.Count("packets_sent", int64(len(sent)))
	res.Count("wire_bytes", int64(len(want)))
	if split1 >= 0 {
		res.Count("enumerated_splits", 1)
	}
	for i, s := range sent {
		if sentAsync[i] {
			res.Count("async_sends", 1)
		}
		if l := len(Enc(s)); l > 4096 {
			res.Count("packets_over_bufio_size", 1)
		}
	}
	if p.Seed%211 == 0 && split1 <= 0 {
		res.Sample = p.Brief(8)
	}
	return res
}

func link2(chunk, split1 int) bool { return chunk != 0 || split1 >= 0 }
