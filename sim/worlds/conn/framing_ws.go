package conn

import (
	"fmt"
	"io"
	"testing"
	"time"

	"github.com/256dpi/gomqtt/packet"
	"github.com/256dpi/gomqtt/transport"
	"github.com/gorilla/websocket"

	"verif/sim/core"
	"verif/sim/rt"
	"verif/sim/simnet"
)

// C03 over the WebSocket carrier: the sending side writes binary WebSocket
// messages whose boundaries fall anywhere in the MQTT byte stream (inside a
// header, between packets, several packets per message) - or is a real
// WebSocketConn sender -, the bytes travel over the simulated link in seeded
// fragments, the receiving end is the real wsStream / WebSocketConn.

func expandC03WS(seed uint64, tier string) []*core.Plan {
	r := core.NewRand(core.Derive(seed, "planws"))
	p := &core.Plan{Check: "C03", Seed: seed}
	p.SetKnob("ws", r.Pick(1, 1, 2))
	p.SetKnob("flush", r.Pick(0, 1, 10))
	p.SetKnob("chunk", r.Pick(1, 3, 7, 64, 0, -1, -1))
	p.SetKnob("split1", -1)
	p.SetKnob("split2", -1)
	n := r.Range(1, 8)
	genSends(r, p, n, r.Chance(1, 3), 0)
	for i := range p.Items {
		if p.Items[i].B > 9000 {
			p.Items[i].B = 4000 + p.Items[i].B%300
		}
	}
	// message boundaries (mode 1): cut points into the byte stream, as permille
	k := r.Range(0, 6)
	for i := 0; i < k; i++ {
		p.Items = append(p.Items, core.Item{K: "wsbound", A: r.Intn(1001)})
	}
	if r.Chance(1, 4) {
		p.SetKnob("trunc", 1)
		p.SetKnob("cutpm", r.Intn(1001)) // where the stream ends, permille of its length
	} else if r.Chance(1, 3) {
		// the receiver's read limit equals the longest packet of the stream: the
		// limit is per MQTT packet, however many packets one WebSocket message
		// (one flush of the sender) carries
		p.SetKnob("limitmax", 1)
	}
	return []*core.Plan{p}
}

func runC03WS(t *testing.T, p *core.Plan) *core.Result {
	res := &core.Result{Check: "C03", Seed: p.Seed}
	log := core.NewLog(false)
	sched := core.NewRand(core.Derive(p.Seed, "sched"))
	mode := p.Knob("ws", 1)
	chunk := p.Knob("chunk", 0)
	var sent []packet.Generic
	var recvd []recvRec
	done := false
	steps := 0
	truncAt, total := -1, 0
	ptxt := core.Bubble(t, p.Seed, p.Yield, func() {
		link := simnet.NewLink(1)
		ca, cb, err := wsPair(link, pumpAll(link))
		if err != nil {
			res.Violate("C03", "C03.ws-handshake", "failed", err.Error())
			return
		}
		rcv := transport.NewWebSocketConn(cb)
		rdone := make(chan struct{})
		go func() {
			defer close(rdone)
			for {
				pkt, err := rcv.Receive()
				recvd = append(recvd, recvRec{pkt, err, rt.Tick()})
				if err != nil {
					return
				}
			}
		}()
		var stream []byte
		var items []core.Item
		var bounds []int
		for _, it := range p.Items {
			switch it.K {
			case "send":
				items = append(items, it)
				pk := MkPacket(it.A, it.B, it.D)
				sent = append(sent, pk)
				stream = append(stream, Enc(pk)...)
			case "wsbound":
				bounds = append(bounds, it.A)
			}
		}
		total = len(stream)
		if p.Knob("limitmax", 0) == 1 {
			longest := 0
			for _, pk := range sent {
				if l := len(Enc(pk)); l > longest {
					longest = l
				}
			}
			rcv.SetReadLimit(int64(longest))
			res.Count("ws_read_limit_runs", 1)
		}
		if p.Knob("trunc", 0) == 1 {
			truncAt = total * p.Knob("cutpm", 500) / 1000
		}
		finished := func() bool {
			select {
			case <-rdone:
				return true
			default:
				return false
			}
		}
		pump := func() {
			for i := 0; i < 200000; i++ {
				syncWait()
				steps++
				if finished() {
					return
				}
				moved := false
				if n := link.A2B.InFlight(); n > 0 {
					k := n
					switch {
					case chunk > 0 && k > chunk:
						k = chunk
					case chunk < 0 && k > 1:
						k = 1 + sched.Intn(k)
					}
					link.A2B.Deliver(k)
					moved = true
				}
				if n := link.B2A.InFlight(); n > 0 {
					link.B2A.Deliver(n)
					moved = true
				}
				if link.A2B.FinPending() {
					link.A2B.DeliverFIN()
					moved = true
				}
				if !moved {
					if !core.AdvanceToNextTimer(time.Second) {
						return
					}
				}
			}
		}
		switch mode {
		case 1:
			// raw message boundaries anywhere in the stream
			cuts := []int{0}
			for _, b := range bounds {
				cuts = append(cuts, total*b/1000)
			}
			cuts = append(cuts, total)
			sortInts(cuts)
			end := total
			if truncAt >= 0 {
				end = truncAt
			}
			for i := 0; i+1 < len(cuts); i++ {
				lo, hi := cuts[i], cuts[i+1]
				if hi > end {
					hi = end
				}
				if hi <= lo {
					continue
				}
				if err := ca.WriteMessage(websocket.BinaryMessage, stream[lo:hi]); err != nil {
					break
				}
				log.Ev("ws message %d..%d", lo, hi)
				res.Count("ws_messages", 1)
				if sched.Chance(1, 2) {
					pump()
				}
			}
			if truncAt >= 0 {
				res.Count("fault_stream_cut", 1)
			}
			// the sender goes away: close frame or plain TCP close
			if sched.Chance(1, 2) {
				_ = ca.WriteMessage(websocket.CloseMessage, websocket.FormatCloseMessage(websocket.CloseNormalClosure, ""))
			}
			_ = link.A.Close()
		default:
			// a real WebSocketConn sender: every flush is one message
			snd := transport.NewWebSocketConn(ca)
			snd.SetMaxWriteDelay(time.Duration(p.Knob("flush", 10)) * time.Millisecond)
			for _, it := range items {
				if err := snd.Send(MkPacket(it.A, it.B, it.D), it.C == 1); err != nil {
					res.Count("send_errors", 1)
				}
				if sched.Chance(1, 2) {
					pump()
				}
			}
			truncAt = -1
			_ = snd.Close()
		}
		pump()
		done = finished()
		if !done {
			time.Sleep(time.Hour)
			pump()
			done = finished()
		}
		if !done {
			link.Cut()
			_ = rcv.Close()
			syncWait()
		}
		_ = link.A.Close()
		res.Yields = rt.Yields()
		res.SimNanos = int64(core.SimNow())
	})
	res.Steps = steps
	if ptxt != "" {
		res.Violate("C03", "C03.panic", "bubble-ws", ptxt)
	}
	if !done {
		res.Violate("C03", "C03.receive-hangs", "receiver-ws", "Receive on the WebSocket connection is still blocked one virtual hour after the stream ended")
	}
	// which packets must come out
	nexp := len(sent)
	atBoundary := true
	if truncAt >= 0 {
		off := 0
		nexp = 0
		atBoundary = truncAt == 0
		for _, s := range sent {
			off += len(Enc(s))
			if off <= truncAt {
				nexp++
			}
			if off == truncAt {
				atBoundary = true
			}
		}
		if !atBoundary {
			res.Count("ended_inside_packet", 1)
		}
	}
	var got []packet.Generic
	var ferr error
	for _, r := range recvd {
		if r.err != nil {
			ferr = r.err
			break
		}
		got = append(got, r.pkt)
	}
	if len(got) != nexp {
		res.Violate("C03", "C03.packets", "count-ws", fmt.Sprintf("WebSocket receiver got %d packets, expected %d of %d sent (stream of %d bytes ended at %d); final error %v", len(got), nexp, len(sent), total, truncAt, ferr))
	}
	for i := 0; i < len(got) && i < nexp; i++ {
		if !SamePacket(got[i], sent[i]) {
			res.Violate("C03", "C03.packets", "content-ws", fmt.Sprintf("packet %d received as %s, sent as %s", i, brief(got[i]), brief(sent[i])))
			break
		}
	}
	if done && ferr == nil {
		res.Violate("C03", "C03.stream-end", "no-error-ws", "the stream ended but Receive reported no error")
	}
	if done && truncAt >= 0 && !atBoundary && ferr == io.EOF {
		res.Violate("C03", "C03.stream-end", "mid-packet-eof-ws", fmt.Sprintf("the WebSocket stream ended inside a packet at %d and Receive reported a clean EOF", truncAt))
	}
	res.Hash = log.Hash()
	res.Events = log.N
	res.Sched = log.Hash()
	res.Nontrivial = len(sent) >= 1
	res.Count("ws_runs", 1)
	res.Count("packets_sent", int64(len(sent)))
	if p.Seed%211 == 3 {
		res.Sample = p.Brief(8)
	}
	return res
}

func sortInts(a []int) {
	for i := 1; i < len(a); i++ {
		for j := i; j > 0 && a[j] < a[j-1]; j-- {
			a[j], a[j-1] = a[j-1], a[j]
		}
	}
}
