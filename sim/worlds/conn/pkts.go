// Package conn is the W-conn world: real transport.NetConn / BaseConn /
// packet.Stream / mercury.Writer ends over the simulated byte transport.
package conn

import (
	"bytes"
	"fmt"
	"strings"

	"github.com/256dpi/gomqtt/packet"
)

// MkPacket builds a well-formed packet of the selected type whose size is
// governed by size; tag makes it unique.
func MkPacket(sel, size, tag int) packet.Generic {
	id := packet.ID(tag%65535 + 1)
	fill := func(n int) string {
		if n < 1 {
			n = 1
		}
		if n > 65000 {
			n = 65000
		}
		s := fmt.Sprintf("%d/", tag)
		if len(s) >= n {
			return s[:n]
		}
		return s + strings.Repeat("x", n-len(s))
	}
	switch sel % 14 {
	case 0:
		p := packet.NewConnect()
		p.ClientID = fill(size % 60000)
		p.KeepAlive = uint16(tag)
		p.CleanSession = tag%2 == 0
		if tag%3 == 0 {
			p.Username, p.Password = "u", fill(size%100)
		}
		if tag%5 == 0 {
			p.Will = &packet.Message{Topic: "w", Payload: []byte(fill(size % 300)), QOS: packet.QOS(tag % 3), Retain: tag%2 == 1}
		}
		return p
	case 1:
		p := packet.NewConnack()
		p.SessionPresent = tag%2 == 0
		if !p.SessionPresent {
			p.ReturnCode = packet.ConnackCode(tag % 6)
		}
		return p
	case 2, 3, 4:
		p := packet.NewPublish()
		p.Message.Topic = "t/" + fmt.Sprint(tag)
		p.Message.QOS = packet.QOS(tag % 3)
		p.Message.Retain = tag%4 == 0
		if p.Message.QOS > 0 {
			p.ID = id
			p.Dup = tag%7 == 0
		}
		if size > 0 {
			pl := make([]byte, size)
			for i := range pl {
				pl[i] = byte(tag + i)
			}
			copy(pl, fmt.Sprintf("#%d#", tag))
			p.Message.Payload = pl
		}
		return p
	case 5:
		p := packet.NewPuback()
		p.ID = id
		return p
	case 6:
		p := packet.NewPubrec()
		p.ID = id
		return p
	case 7:
		p := packet.NewPubrel()
		p.ID = id
		return p
	case 8:
		p := packet.NewPubcomp()
		p.ID = id
		return p
	case 9:
		p := packet.NewSubscribe()
		p.ID = id
		n := 1 + size%8
		for i := 0; i < n; i++ {
			p.Subscriptions = append(p.Subscriptions, packet.Subscription{Topic: fill(1 + (size/(i+1))%2000), QOS: packet.QOS((tag + i) % 3)})
		}
		return p
	case 10:
		p := packet.NewSuback()
		p.ID = id
		n := 1 + size%8
		for i := 0; i < n; i++ {
			c := packet.QOS((tag + i) % 4)
			if c == 3 {
				c = packet.QOSFailure
			}
			p.ReturnCodes = append(p.ReturnCodes, c)
		}
		return p
	case 11:
		p := packet.NewUnsubscribe()
		p.ID = id
		n := 1 + size%8
		for i := 0; i < n; i++ {
			p.Topics = append(p.Topics, fill(1+(size/(i+1))%2000))
		}
		return p
	case 12:
		p := packet.NewUnsuback()
		p.ID = id
		return p
	default:
		switch tag % 3 {
		case 0:
			return packet.NewPingreq()
		case 1:
			return packet.NewPingresp()
		}
		return packet.NewDisconnect()
	}
}

// Enc encodes a packet with the library's encoder (the codec itself is C01's
// subject; here it defines what "the packet's encoding" is).
func Enc(p packet.Generic) []byte {
	b := make([]byte, p.Len())
	n, err := p.Encode(b)
	if err != nil {
		panic(fmt.Sprintf("harness packet does not encode: %v (%s)", err, p.String()))
	}
	return b[:n]
}

// SamePacket compares by type and encoding.
func SamePacket(a, b packet.Generic) bool {
	if a == nil || b == nil {
		return a == b
	}
	if a.Type() != b.Type() {
		return false
	}
	ba := make([]byte, a.Len())
	na, ea := a.Encode(ba)
	bb := make([]byte, b.Len())
	nb, eb := b.Encode(bb)
	if ea != nil || eb != nil {
		return false
	}
	return bytes.Equal(ba[:na], bb[:nb])
}

func brief(p packet.Generic) string {
	if p == nil {
		return "nil"
	}
	s := p.String()
	if len(s) > 90 {
		s = s[:90] + "…"
	}
	return s
}
