package lib

import (
	"fmt"
	"sort"
	"strings"
	"sync"
	"testing"
	"time"

	"github.com/256dpi/gomqtt/packet"
	"github.com/256dpi/gomqtt/session"
	"github.com/anishathalye/porcupine"

	"verif/sim/core"
	"verif/sim/rt"
)

// C18: packet ids and the packet store.
//
// modes: 0 concurrent NextID/Reset on one counter (porcupine + successor-set oracle)
//        1 sequential store history vs two-map model
//        2 concurrent store history (porcupine, partitioned by direction)
//        3 counter-state sweep: from start state s, 65535 allocations are
//          non-zero and pairwise distinct (thorough: all 65536 states, split
//          over the seeds; quick: a sample plus the states around the wrap)

func init() {
	core.Register(&core.Check{ID: "C18", Expand: expandC18, Run: runC18})
}

var storeIDs = []int{0, 1, 2, 3, 65535}

func expandC18(_ *testing.T, seed uint64, tier string) []*core.Plan {
	r := core.NewRand(core.Derive(seed, "plan"))
	p := &core.Plan{Check: "C18", Seed: seed}
	mode := int(seed % 4)
	p.SetKnob("mode", mode)
	switch mode {
	case 0:
		start := r.Pick(65530, 65531, 65532, 65533, 65534, 65535, 0, 1, 2, r.Intn(65536), r.Intn(65536))
		p.SetKnob("start", start)
		actors := r.Range(2, 16)
		p.Yield = r.Pick(2, 3, 4, 8)
		total := 0
		for a := 1; a <= actors && total < 36; a++ {
			n := r.Range(1, 5)
			for i := 0; i < n && total < 36; i++ {
				it := core.Item{K: "op", P: a, S: "next"}
				if r.Chance(1, 12) {
					it.S = "reset"
				}
				p.Items = append(p.Items, it)
				total++
			}
		}
	case 1, 2:
		n := r.Range(1, 80)
		actors := 1
		if mode == 2 {
			actors = r.Range(2, 12)
			n = r.Range(4, 36)
			p.Yield = r.Pick(2, 3, 4, 8)
		}
		if mode == 1 && r.Chance(1, 3) {
			// the stores start out restored from a persisted session
			// (NewPacketStoreWithPackets), some of the packets without an id
			for i, k := 0, r.Range(1, 5); i < k; i++ {
				p.Items = append(p.Items, core.Item{K: "op", S: "restore", A: r.Intn(2), B: storeIDs[r.Intn(len(storeIDs))], C: r.Intn(7), D: 201 + i})
			}
		}
		for i := 0; i < n; i++ {
			it := core.Item{K: "op", P: 1 + r.Intn(actors)}
			it.S = []string{"save", "lookup", "delete", "all", "reset", "next"}[r.Weighted([]int{8, 6, 4, 3, 1, 2})]
			it.A = r.Intn(2)                       // direction
			it.B = storeIDs[r.Intn(len(storeIDs))] // id
			it.C = r.Intn(7)                       // packet type selector for save
			it.D = 1 + r.Intn(200)                 // tag making the saved packet unique
			if mode == 2 && it.S == "next" {
				it.S = "lookup"
			}
			p.Items = append(p.Items, it)
		}
	case 3:
		// seed/4 indexes a block of start states
		blk := int(seed / 4)
		if tier == "thorough" {
			per := p.Knob("per", 64)
			p.SetKnob("from", (blk*per)%65536)
			p.SetKnob("n", per)
		} else {
			// quick: around the wrap, then samples
			if blk == 0 {
				p.SetKnob("from", 65528)
				p.SetKnob("n", 18) // 65528..65535,0..9
			} else {
				p.SetKnob("from", r.Intn(65536))
				p.SetKnob("n", 8)
			}
		}
	}
	return []*core.Plan{p}
}

func runC18(t *testing.T, p *core.Plan) *core.Result {
	res := &core.Result{Check: "C18", Seed: p.Seed}
	log := core.NewLog(false)
	switch p.Knob("mode", 0) {
	case 0:
		runCounterCon(t, p, res, log)
	case 1:
		if ptxt := core.Bubble(t, p.Seed, 0, func() { runStoreSeq(p, res, log) }); ptxt != "" {
			res.Violate("C18", "C18.panic", "bubble", ptxt)
		}
	case 2:
		runStoreCon(t, p, res, log)
	case 3:
		runCounterSweep(p, res, log)
	}
	res.Hash = log.Hash()
	res.Events = log.N
	return res
}

/* counter */

// succ is the specification's successor rule: ids run 1..65535 and wrap to 1.
func succ(id int) int {
	if id >= 65535 {
		return 1
	}
	return id + 1
}

// firstFrom is the first id a counter created with start value s emits.
func firstFrom(s int) int {
	if s == 0 {
		return 1
	}
	return s
}

type ctrIn struct{ op string }

// state: the id the next allocation must return.
var ctrModel = porcupine.Model{
	Step: func(state, input, output interface{}) (bool, interface{}) {
		s := state.(int)
		if input.(ctrIn).op == "reset" {
			return true, 1
		}
		return output.(int) == s, succ(s)
	},
	DescribeOperation: func(in, out interface{}) string { return fmt.Sprintf("%s -> %v", in.(ctrIn).op, out) },
}

func runCounterCon(t *testing.T, p *core.Plan, res *core.Result, log *core.Log) {
	start := p.Knob("start", 1)
	c := session.NewIDCounterWithNext(packet.ID(start))
	byActor := map[int][]core.Item{}
	maxA := 0
	for _, it := range p.Items {
		byActor[it.P] = append(byActor[it.P], it)
		if it.P > maxA {
			maxA = it.P
		}
	}
	type rec struct {
		actor    int
		op       string
		inv, ret uint64
		out      int
	}
	recs := make([][]rec, maxA+1)
	var yields uint64
	ptxt := core.Bubble(t, p.Seed, p.Yield, func() {
		var wg sync.WaitGroup
		for a := 1; a <= maxA; a++ {
			a := a
			wg.Add(1)
			go func() {
				defer wg.Done()
				for _, it := range byActor[a] {
					inv := rt.Tick()
					out := 0
					if it.S == "reset" {
						c.Reset()
					} else {
						out = int(c.NextID())
					}
					recs[a] = append(recs[a], rec{a, it.S, inv, rt.Tick(), out})
				}
			}()
		}
		wg.Wait()
		yields = rt.Yields()
	})
	if ptxt != "" {
		res.Violate("C18", "C18.panic", "bubble", ptxt)
		return
	}
	var all []rec
	for _, l := range recs {
		all = append(all, l...)
	}
	sort.Slice(all, func(i, j int) bool { return all[i].inv < all[j].inv })
	var ops []porcupine.Operation
	resets, overlap := 0, 0
	var maxRet uint64
	var ids []int
	var sched strings.Builder
	for _, r := range all {
		log.AddAt(r.inv, fmt.Sprintf("a%d %s -> %d @%d", r.actor, r.op, r.out, r.ret))
		ops = append(ops, porcupine.Operation{ClientId: r.actor, Input: ctrIn{r.op}, Call: int64(r.inv), Output: r.out, Return: int64(r.ret)})
		if r.op == "reset" {
			resets++
		} else {
			ids = append(ids, r.out)
			if r.out == 0 {
				res.Violate("C18", "C18.zero-id", "concurrent", fmt.Sprintf("NextID returned 0 (start %d)", start))
			}
		}
		if r.inv < maxRet {
			overlap++
		}
		if r.ret > maxRet {
			maxRet = r.ret
		}
		fmt.Fprintf(&sched, "%x", r.actor)
	}
	if resets == 0 {
		// the multiset returned must be exactly the next N successors of start
		want := map[int]int{}
		x := firstFrom(start)
		for range ids {
			want[x]++
			x = succ(x)
		}
		for _, id := range ids {
			want[id]--
		}
		for id, n := range want {
			if n != 0 {
				res.Violate("C18", "C18.successor-set", "concurrent",
					fmt.Sprintf("start %d, %d concurrent allocations returned %v: id %d off by %d from the successor sequence", start, len(ids), ids, id, -n))
				break
			}
		}
	}
	m := ctrModel
	m.Init = func() interface{} { return firstFrom(start) }
	switch porcupine.CheckOperationsTimeout(m, ops, 20*time.Second) {
	case porcupine.Illegal:
		res.Violate("C18", "C18.counter-linearizable", "counter", fmt.Sprintf("start %d history %v not linearizable", start, all))
	case porcupine.Unknown:
		res.Inconcl++
	}
	res.Yields = yields
	res.Steps = len(all)
	res.Nontrivial = overlap > 0
	res.Sched = sched.String() + fmt.Sprintf("/%d", overlap)
	res.Count("ops", int64(len(all)))
	res.Count("overlapping_ops", int64(overlap))
	res.Count("lock_yields", int64(yields))
	if start >= 65530 || start <= 1 {
		res.Count("wrap_starts", 1)
	}
	if res.Seed%101 == 0 {
		res.Sample = p.Brief(12)
	}
}

func runCounterSweep(p *core.Plan, res *core.Result, log *core.Log) {
	from, n := p.Knob("from", 0), p.Knob("n", 1)
	seen := make([]uint32, 65536)
	for k := 0; k < n; k++ {
		s := (from + k) % 65536
		c := session.NewIDCounterWithNext(packet.ID(s))
		mark := uint32(k + 1)
		want := firstFrom(s)
		for i := 0; i < 65535; i++ {
			id := int(c.NextID())
			if id == 0 {
				res.Violate("C18", "C18.zero-id", "sweep", fmt.Sprintf("start %d: allocation %d returned 0", s, i))
				break
			}
			if seen[id] == mark {
				res.Violate("C18", "C18.repeat", "sweep", fmt.Sprintf("start %d: id %d repeated within 65535 allocations (at %d)", s, id, i))
				break
			}
			if id != want {
				res.Violate("C18", "C18.successor", "sweep", fmt.Sprintf("start %d: allocation %d returned %d, want %d", s, i, id, want))
				break
			}
			want = succ(want)
			seen[id] = mark
		}
		c.Reset()
		if id := c.NextID(); id != 1 {
			res.Violate("C18", "C18.reset", "sweep", fmt.Sprintf("after Reset NextID = %d", id))
		}
		log.Ev("sweep %d ok", s)
	}
	res.Steps = n
	res.Nontrivial = true
	res.Sched = fmt.Sprintf("sweep:%d+%d", from, n)
	res.Count("counter_states_swept", int64(n))
	if from > 65500 {
		res.Sample = fmt.Sprintf("sweep of start states %d..+%d: 65535 allocations each, all non-zero, distinct, in successor order", from, n)
	}
}

/* store */

func mkPacket(sel, id, tag int) packet.Generic {
	switch sel {
	case 0, 1:
		p := packet.NewPublish()
		p.ID = packet.ID(id)
		p.Message.Topic = fmt.Sprintf("t%d", tag)
		p.Message.QOS = 1
		return p
	case 2:
		p := packet.NewPubrel()
		p.ID = packet.ID(id)
		return p
	case 3:
		p := packet.NewSubscribe()
		p.ID = packet.ID(id)
		p.Subscriptions = []packet.Subscription{{Topic: fmt.Sprintf("s%d", tag)}}
		return p
	case 4:
		p := packet.NewPuback()
		p.ID = packet.ID(id)
		return p
	case 5:
		return packet.NewPingreq() // no id: must be ignored
	default:
		c := packet.NewConnect() // no id: must be ignored
		c.ClientID = fmt.Sprintf("c%d", tag)
		return c
	}
}

func hasID(sel int) bool { return sel <= 4 }

func pktStr(p packet.Generic) string {
	if p == nil {
		return "nil"
	}
	return p.String()
}

type storeModel struct {
	m    [2]map[int]string
	next int
}

func newStoreModel() *storeModel {
	return &storeModel{m: [2]map[int]string{{}, {}}, next: 1}
}

func (m *storeModel) canon() string {
	var b strings.Builder
	for d := 0; d < 2; d++ {
		keys := make([]int, 0)
		for k := range m.m[d] {
			keys = append(keys, k)
		}
		sort.Ints(keys)
		for _, k := range keys {
			fmt.Fprintf(&b, "%d/%d=%s\x01", d, k, m.m[d][k])
		}
	}
	return b.String()
}

func (m *storeModel) all(d int) string {
	var l []string
	for _, v := range m.m[d] {
		l = append(l, v)
	}
	sort.Strings(l)
	return strings.Join(l, "\x02")
}

// step applies the op to the model; returns the expected output.
func (m *storeModel) step(it core.Item) string {
	switch it.S {
	case "save", "restore":
		if hasID(it.C) {
			m.m[it.A][it.B] = pktStr(mkPacket(it.C, it.B, it.D))
		}
	case "lookup":
		if v, ok := m.m[it.A][it.B]; ok {
			return v
		}
		return "nil"
	case "delete":
		delete(m.m[it.A], it.B)
	case "all":
		return m.all(it.A)
	case "reset":
		m.m = [2]map[int]string{{}, {}}
		m.next = 1
	case "next":
		id := m.next
		m.next = succ(m.next)
		return fmt.Sprint(id)
	}
	return ""
}

func applyStore(s *session.MemorySession, it core.Item) string {
	dir := session.Direction(it.A)
	switch it.S {
	case "save":
		_ = s.SavePacket(dir, mkPacket(it.C, it.B, it.D))
	case "lookup":
		p, _ := s.LookupPacket(dir, packet.ID(it.B))
		return pktStr(p)
	case "delete":
		_ = s.DeletePacket(dir, packet.ID(it.B))
	case "all":
		l, _ := s.AllPackets(dir)
		var o []string
		for _, p := range l {
			o = append(o, pktStr(p))
		}
		sort.Strings(o)
		return strings.Join(o, "\x02")
	case "reset":
		_ = s.Reset()
	case "next":
		return fmt.Sprint(int(s.NextID()))
	}
	return ""
}

// restoredSession builds the session the plan starts from: the leading
// "restore" items become the initial content of the two stores, handed to
// NewPacketStoreWithPackets as a persisted session would; the model takes them
// as saves. It returns the remaining items.
func restoredSession(p *core.Plan, m *storeModel, res *core.Result) (*session.MemorySession, []core.Item) {
	s := session.NewMemorySession()
	var init [2][]packet.Generic
	n := 0
	for n < len(p.Items) && p.Items[n].S == "restore" {
		it := p.Items[n]
		init[it.A] = append(init[it.A], mkPacket(it.C, it.B, it.D))
		m.step(it)
		n++
	}
	if n > 0 {
		s.Incoming = session.NewPacketStoreWithPackets(init[0])
		s.Outgoing = session.NewPacketStoreWithPackets(init[1])
		res.Count("restored_stores", 1)
	}
	return s, p.Items[n:]
}

func runStoreSeq(p *core.Plan, res *core.Result, log *core.Log) {
	m := newStoreModel()
	s, items := restoredSession(p, m, res)
	saves := 0
	for i, it := range items {
		got := applyStore(s, it)
		want := m.step(it)
		log.Ev("%s -> %q", it.String(), got)
		if got != want {
			res.Violate("C18", "C18.store-model", it.S,
				fmt.Sprintf("op %d %s returned %q, the two-map model says %q (model %q)", i, it.String(), got, want, m.canon()))
		}
		if it.S == "save" {
			saves++
		}
		// cross-check both directions after every op
		for d := 0; d < 2; d++ {
			if g, w := applyStore(s, core.Item{S: "all", A: d}), m.all(d); g != w {
				res.Violate("C18", "C18.store-model", "all",
					fmt.Sprintf("after op %d %s direction %d lists %q, model %q", i, it.String(), d, g, w))
			}
		}
	}
	res.Steps = len(p.Items)
	res.Nontrivial = saves >= 2
	res.Sched = "seq:" + log.Hash()
	res.State = fmt.Sprintf("%x", core.Derive(1, m.canon()))
	res.Count("ops", int64(len(p.Items)))
	if res.Seed%101 == 1 {
		res.Sample = p.Brief(12)
	}
}

type storeIn struct{ it core.Item }

func storePorcupine() porcupine.Model {
	return porcupine.Model{
		Partition: func(history []porcupine.Operation) [][]porcupine.Operation {
			// the two directions are independent maps (reset touches both and is
			// replicated into both partitions)
			var parts [2][]porcupine.Operation
			for _, o := range history {
				it := o.Input.(storeIn).it
				if it.S == "reset" {
					parts[0] = append(parts[0], o)
					parts[1] = append(parts[1], o)
				} else {
					parts[it.A] = append(parts[it.A], o)
				}
			}
			return [][]porcupine.Operation{parts[0], parts[1]}
		},
		Init: func() interface{} { return "" },
		Step: func(state, input, output interface{}) (bool, interface{}) {
			m := parseStore(state.(string))
			want := m.step(input.(storeIn).it)
			return want == output.(string), m.canon()
		},
		DescribeOperation: func(in, out interface{}) string {
			return fmt.Sprintf("%s -> %q", in.(storeIn).it.String(), out)
		},
	}
}

func parseStore(s string) *storeModel {
	m := newStoreModel()
	for _, part := range strings.Split(s, "\x01") {
		if part == "" {
			continue
		}
		var d, k int
		i := strings.IndexByte(part, '=')
		fmt.Sscanf(part[:i], "%d/%d", &d, &k)
		m.m[d][k] = part[i+1:]
	}
	return m
}

func runStoreCon(t *testing.T, p *core.Plan, res *core.Result, log *core.Log) {
	s := session.NewMemorySession()
	byActor := map[int][]core.Item{}
	maxA := 0
	for _, it := range p.Items {
		byActor[it.P] = append(byActor[it.P], it)
		if it.P > maxA {
			maxA = it.P
		}
	}
	type rec struct {
		actor    int
		it       core.Item
		inv, ret uint64
		out      string
	}
	recs := make([][]rec, maxA+1)
	var yields uint64
	ptxt := core.Bubble(t, p.Seed, p.Yield, func() {
		var wg sync.WaitGroup
		for a := 1; a <= maxA; a++ {
			a := a
			wg.Add(1)
			go func() {
				defer wg.Done()
				for _, it := range byActor[a] {
					inv := rt.Tick()
					out := applyStore(s, it)
					recs[a] = append(recs[a], rec{a, it, inv, rt.Tick(), out})
				}
			}()
		}
		wg.Wait()
		yields = rt.Yields()
	})
	if ptxt != "" {
		res.Violate("C18", "C18.panic", "bubble", ptxt)
		return
	}
	var all []rec
	for _, l := range recs {
		all = append(all, l...)
	}
	sort.Slice(all, func(i, j int) bool { return all[i].inv < all[j].inv })
	var ops []porcupine.Operation
	overlap := 0
	var maxRet uint64
	var sched strings.Builder
	for _, r := range all {
		log.AddAt(r.inv, fmt.Sprintf("a%d %s -> %q @%d", r.actor, r.it.String(), r.out, r.ret))
		ops = append(ops, porcupine.Operation{ClientId: r.actor, Input: storeIn{r.it}, Call: int64(r.inv), Output: r.out, Return: int64(r.ret)})
		if r.inv < maxRet {
			overlap++
		}
		if r.ret > maxRet {
			maxRet = r.ret
		}
		fmt.Fprintf(&sched, "%x", r.actor)
	}
	switch porcupine.CheckOperationsTimeout(storePorcupine(), ops, 20*time.Second) {
	case porcupine.Illegal:
		var w []string
		for _, o := range all {
			w = append(w, fmt.Sprintf("a%d[%d,%d] %s -> %q", o.actor, o.inv, o.ret, o.it.String(), o.out))
		}
		res.Violate("C18", "C18.store-linearizable", "store", "history not linearizable against the two-map model: "+strings.Join(w, " | "))
	case porcupine.Unknown:
		res.Inconcl++
	}
	res.Yields = yields
	res.Steps = len(all)
	res.Nontrivial = overlap > 0
	res.Sched = sched.String() + fmt.Sprintf("/%d", overlap)
	res.Count("ops", int64(len(all)))
	res.Count("overlapping_ops", int64(overlap))
	res.Count("lock_yields", int64(yields))
	if res.Seed%101 == 2 {
		res.Sample = p.Brief(12)
	}
}
