// Package lib is the W-lib world: the thread-safe library objects of gomqtt
// (topic.Tree, session.IDCounter, session.MemorySession) called from several
// actor goroutines whose interleaving at every lock is decided by the seeded
// runtime, and compared with sequential reference models.
package lib

import (
	"fmt"
	"sort"
	"strings"
	"sync"
	"testing"
	"time"

	"github.com/256dpi/gomqtt/topic"
	"github.com/anishathalye/porcupine"

	"verif/sim/core"
	"verif/sim/model"
	"verif/sim/rt"
)

// universes (DESIGN.md C05)
var filterKeys = []string{"a", "b", "a/b", "a/", "/a", "a/+", "+", "a/#", "#", "+/b", "a/+/c", "/#"}
var nameKeys = []string{"a", "b", "a/b", "a/", "/a", "b/a", "a/b/c", "/", "a/c"}
var nameQueries = []string{"a", "b", "a/b", "a/", "/a", "b/a", "a/b/c", "/", "a/c", "c", "a/b/"}
var filterQueries = []string{"a", "b", "a/b", "a/+", "+", "a/#", "#", "+/b", "+/+", "a/+/c", "/#", "/+", "+/", "a/b/#", "b/#"}

var mutOps = []string{"add", "set", "remove", "empty", "clear", "reset"}

const (
	modeSeqFilter = 0 // stored keys are filters, queries are names (Match)
	modeSeqName   = 1 // stored keys are names, queries are filters (Search)
	modeConFilter = 2
	modeConName   = 3
)

func init() {
	core.Register(&core.Check{ID: "C05", Expand: expandC05, Run: runC05})
}

func expandC05(_ *testing.T, seed uint64, tier string) []*core.Plan {
	r := core.NewRand(core.Derive(seed, "plan"))
	p := &core.Plan{Check: "C05", Seed: seed}
	mode := int(seed % 4)
	p.SetKnob("mode", mode)
	keys := filterKeys
	queries := nameQueries
	if mode == modeSeqName || mode == modeConName {
		keys = nameKeys
		queries = filterQueries
	}
	// swarm: restrict the key universe per run so that collisions are frequent
	nk := r.Range(2, len(keys))
	perm := permute(r, len(keys))[:nk]
	nv := r.Range(1, 3)
	genOp := func(actor int, qw int) core.Item {
		it := core.Item{K: "op", P: actor}
		if r.Intn(100) < qw {
			if mode == modeSeqFilter || mode == modeConFilter {
				it.S = []string{"get", "match", "matchFirst", "all", "count"}[r.Weighted([]int{3, 5, 3, 1, 1})]
			} else {
				it.S = []string{"get", "search", "searchFirst", "match", "all", "count"}[r.Weighted([]int{3, 5, 3, 1, 1, 1})]
			}
			switch it.S {
			case "get":
				it.T = keys[perm[r.Intn(nk)]]
			case "match", "matchFirst":
				if mode == modeSeqFilter || mode == modeConFilter {
					it.T = queries[r.Intn(len(queries))]
				} else {
					it.T = nameQueries[r.Intn(len(nameQueries))]
				}
			case "search", "searchFirst":
				it.T = queries[r.Intn(len(queries))]
			}
			return it
		}
		it.S = mutOps[r.Weighted([]int{8, 4, 6, 3, 2, 1})]
		it.T = keys[perm[r.Intn(nk)]]
		it.A = 1 + r.Intn(nv)
		if it.S == "empty" || it.S == "reset" {
			it.A = 0
		}
		if it.S == "clear" || it.S == "reset" {
			it.T = ""
		}
		return it
	}
	switch mode {
	case modeSeqFilter, modeSeqName:
		n := r.Range(1, 60)
		if tier == "thorough" && r.Chance(1, 4) {
			n = r.Range(60, 300)
		}
		for i := 0; i < n; i++ {
			p.Items = append(p.Items, genOp(0, 15))
		}
	default:
		actors := r.Range(2, 8)
		if r.Chance(1, 6) {
			actors = r.Range(9, 16)
		}
		p.Yield = r.Pick(2, 2, 3, 4, 8, 16)
		// a short sequential prefix builds some state, then actors interleave
		pre := r.Range(0, 4)
		for i := 0; i < pre; i++ {
			it := genOp(0, 0)
			p.Items = append(p.Items, it)
		}
		total := 0
		for a := 1; a <= actors && total < 34; a++ {
			n := r.Range(1, 5)
			for i := 0; i < n && total < 34; i++ {
				p.Items = append(p.Items, genOp(a, 55))
				total++
			}
		}
	}
	return []*core.Plan{p}
}

func permute(r *core.Rand, n int) []int {
	p := make([]int, n)
	for i := range p {
		p[i] = i
	}
	for i := n - 1; i > 0; i-- {
		j := r.Intn(i + 1)
		p[i], p[j] = p[j], p[i]
	}
	return p
}

/* applying operations */

func toInts(vs []interface{}) []int {
	out := make([]int, 0, len(vs))
	for _, v := range vs {
		if v == nil {
			out = append(out, -1) // a nil inside a result slice is itself a defect
			continue
		}
		out = append(out, v.(int))
	}
	sort.Ints(out)
	return out
}

func intsStr(l []int) string {
	var b strings.Builder
	for _, x := range l {
		fmt.Fprintf(&b, "%d,", x)
	}
	return b.String()
}

type snapshot struct {
	desc string
	orig []interface{}
	copy []interface{}
}

// applyTree executes one op on the real tree and renders its output canonically.
func applyTree(t *topic.Tree, it core.Item, snaps *[]snapshot) string {
	keep := func(desc string, vs []interface{}) {
		if snaps != nil && len(vs) > 0 {
			*snaps = append(*snaps, snapshot{desc, vs, append([]interface{}{}, vs...)})
		}
	}
	switch it.S {
	case "add":
		t.Add(it.T, it.A)
	case "set":
		t.Set(it.T, it.A)
	case "remove":
		t.Remove(it.T, it.A)
	case "empty":
		t.Empty(it.T)
	case "clear":
		t.Clear(it.A)
	case "reset":
		t.Reset()
	case "get":
		vs := t.Get(it.T)
		keep("get "+it.T, vs)
		return intsStr(toInts(vs))
	case "match":
		vs := t.Match(it.T)
		keep("match "+it.T, vs)
		return intsStr(toInts(vs))
	case "search":
		vs := t.Search(it.T)
		keep("search "+it.T, vs)
		return intsStr(toInts(vs))
	case "matchFirst":
		v := t.MatchFirst(it.T)
		if v == nil {
			return "-"
		}
		return fmt.Sprint(v.(int))
	case "searchFirst":
		v := t.SearchFirst(it.T)
		if v == nil {
			return "-"
		}
		return fmt.Sprint(v.(int))
	case "all":
		vs := t.All()
		keep("all", vs)
		return intsStr(toInts(vs))
	case "count":
		return fmt.Sprint(t.Count())
	case "dump":
		keys := append(append([]string{}, filterKeys...), nameKeys...)
		sort.Strings(keys)
		var b strings.Builder
		last := "\x00"
		for _, k := range keys {
			if k == last {
				continue
			}
			last = k
			vs := toInts(t.Get(k))
			if len(vs) == 0 {
				continue
			}
			b.WriteString(k + "=")
			for _, v := range vs {
				fmt.Fprintf(&b, "%d", v)
			}
			b.WriteByte(';')
		}
		return b.String()
	default:
		panic("bad op " + it.S)
	}
	return ""
}

// stepModel applies the op to the model and says whether out is a legal answer.
func stepModel(m *model.TreeModel, it core.Item, out string) (bool, string) {
	first := func(set []int) (bool, string) {
		if len(set) == 0 {
			return out == "-", "-"
		}
		for _, v := range set {
			if out == fmt.Sprint(v) {
				return true, out
			}
		}
		return false, "one of " + intsStr(set)
	}
	switch it.S {
	case "add":
		m.Add(it.T, it.A)
	case "set":
		m.Set(it.T, it.A)
	case "remove":
		m.Remove(it.T, it.A)
	case "empty":
		m.Empty(it.T)
	case "clear":
		m.Clear(it.A)
	case "reset":
		m.Reset()
	case "get":
		w := intsStr(m.Get(it.T))
		return out == w, w
	case "match":
		w := intsStr(m.Match(it.T))
		return out == w, w
	case "search":
		w := intsStr(m.Search(it.T))
		return out == w, w
	case "matchFirst":
		return first(m.Match(it.T))
	case "searchFirst":
		return first(m.Search(it.T))
	case "all":
		w := intsStr(m.All())
		return out == w, w
	case "count":
		w := fmt.Sprint(m.Count())
		return out == w, w
	case "dump":
		w := m.Canon()
		return out == w, w
	}
	return out == "", ""
}

func isQuery(op string) bool {
	switch op {
	case "add", "set", "remove", "empty", "clear", "reset":
		return false
	}
	return true
}

func ruleOf(op string) string {
	switch op {
	case "search", "searchFirst":
		return "C05.search-model"
	case "match", "matchFirst":
		return "C05.match-model"
	case "get":
		return "C05.get-model"
	}
	return "C05.query-model"
}

// diffClass names the kind of disagreement (part of the witness key).
func diffClass(op, got, want string) string {
	switch op {
	case "matchFirst", "searchFirst":
		if got == "-" {
			return "nil-but-nonempty"
		}
		if want == "-" {
			return "value-but-empty"
		}
		return "non-member"
	case "count", "dump":
		return "differs"
	}
	g, w := map[string]bool{}, map[string]bool{}
	for _, x := range strings.Split(got, ",") {
		if x != "" {
			g[x] = true
		}
	}
	for _, x := range strings.Split(want, ",") {
		if x != "" {
			w[x] = true
		}
	}
	extra, missing := false, false
	for x := range g {
		if !w[x] {
			extra = true
		}
	}
	for x := range w {
		if !g[x] {
			missing = true
		}
	}
	switch {
	case extra && missing:
		return "extra+missing"
	case extra:
		return "extra"
	case missing:
		return "missing"
	}
	return "duplicates"
}

func checkSnaps(res *core.Result, snaps []snapshot, after string) {
	for _, s := range snaps {
		for i := range s.copy {
			if s.orig[i] != s.copy[i] {
				res.Violate("C05", "C05.snapshot", strings.Fields(s.desc)[0],
					fmt.Sprintf("result of %q was %v when returned and reads %v after %s", s.desc, s.copy, s.orig, after))
				break
			}
		}
	}
}

// sortedLines canonicalises Tree.String (children are printed in map order).
func sortedLines(s string) string {
	l := strings.Split(s, "\n")
	sort.Strings(l)
	return strings.Join(l, "\n")
}

func runC05(t *testing.T, p *core.Plan) *core.Result {
	res := &core.Result{Check: "C05", Seed: p.Seed}
	mode := p.Knob("mode", 0)
	log := core.NewLog(false)
	if mode == modeSeqFilter || mode == modeSeqName {
		// sequential histories also run in a bubble: map iteration order (which
		// value a *First query meets first) is then drawn from the seeded stream
		if ptxt := core.Bubble(t, p.Seed, 0, func() { runTreeSeq(p, res, log, mode) }); ptxt != "" {
			res.Violate("C05", "C05.panic", "bubble", ptxt)
		}
	} else {
		runTreeCon(t, p, res, log, mode)
	}
	res.Hash = log.Hash()
	res.Events = log.N
	return res
}

func universeFor(mode int) (keys, q1, q2 []string) {
	if mode == modeSeqFilter || mode == modeConFilter {
		return filterKeys, nameQueries, nil
	}
	return nameKeys, nameQueries, filterQueries
}

// compareAll compares every query over the whole universe.
func compareAll(res *core.Result, tr *topic.Tree, m *model.TreeModel, mode int, ctx string) {
	keys, names, filters := universeFor(mode)
	chk := func(it core.Item) {
		out := applyTree(tr, it, nil)
		ok, want := stepModel(m, it, out)
		if !ok {
			res.Violate("C05", ruleOf(it.S), it.S+" "+diffClass(it.S, out, want),
				fmt.Sprintf("%s(%q) = [%s], model says [%s]; contents %s; %s", it.S, it.T, out, want, m.Canon(), ctx))
		}
	}
	for _, k := range keys {
		chk(core.Item{S: "get", T: k})
	}
	for _, n := range names {
		chk(core.Item{S: "match", T: n})
		chk(core.Item{S: "matchFirst", T: n})
	}
	for _, f := range filters {
		chk(core.Item{S: "search", T: f})
		chk(core.Item{S: "searchFirst", T: f})
	}
	chk(core.Item{S: "all"})
	chk(core.Item{S: "count"})
}

func runTreeSeq(p *core.Plan, res *core.Result, log *core.Log, mode int) {
	tr := topic.NewStandardTree()
	m := model.NewTreeModel()
	var snaps []snapshot
	muts := 0
	for i, it := range p.Items {
		out := applyTree(tr, it, &snaps)
		ok, want := stepModel(m, it, out)
		log.Ev("%s %s %d -> %s", it.S, it.T, it.A, out)
		if !ok {
			res.Violate("C05", ruleOf(it.S), it.S+" "+diffClass(it.S, out, want),
				fmt.Sprintf("op %d %s(%q) = [%s], model says [%s]; contents %s", i, it.S, it.T, out, want, m.Canon()))
		}
		if !isQuery(it.S) {
			muts++
			compareAll(res, tr, m, mode, fmt.Sprintf("after op %d %s", i, it.String()))
			checkSnaps(res, snaps, fmt.Sprintf("op %d %s", i, it.String()))
		}
	}
	// no trace: a fresh tree loaded with the model's contents answers and looks the same
	fresh := topic.NewStandardTree()
	keys := make([]string, 0, len(m.M))
	for k := range m.M {
		keys = append(keys, k)
	}
	sort.Strings(keys)
	for _, k := range keys {
		for _, v := range m.M[k] {
			fresh.Add(k, v)
		}
	}
	if a, b := sortedLines(tr.String()), sortedLines(fresh.String()); a != b {
		res.Violate("C05", "C05.no-trace", "string",
			fmt.Sprintf("after the history the tree prints %q, a fresh tree with the same contents %q", a, b))
	}
	res.Steps = len(p.Items)
	res.Nontrivial = muts >= 2
	res.Sched = fmt.Sprintf("seq:%s", log.Hash())
	res.State = m.Canon()
	res.Count("ops", int64(len(p.Items)))
	if res.Seed%97 == 0 {
		res.Sample = p.Brief(12)
	}
}

/* concurrent mode */

type opRec struct {
	actor    int
	it       core.Item
	inv, ret uint64
	out      string
}

type treeIn struct{ it core.Item }

var treePorcupine = porcupine.Model{
	Init: func() interface{} { return "" },
	Step: func(state, input, output interface{}) (bool, interface{}) {
		m := model.ParseCanon(state.(string))
		ok, _ := stepModel(m, input.(treeIn).it, output.(string))
		return ok, m.Canon()
	},
	Equal: func(a, b interface{}) bool { return a.(string) == b.(string) },
	DescribeOperation: func(in, out interface{}) string {
		return fmt.Sprintf("%s -> %s", in.(treeIn).it.String(), out.(string))
	},
}

func runTreeCon(t *testing.T, p *core.Plan, res *core.Result, log *core.Log, mode int) {
	tr := topic.NewStandardTree()
	// split the items: actor 0 = sequential prefix
	byActor := map[int][]core.Item{}
	maxA := 0
	for _, it := range p.Items {
		byActor[it.P] = append(byActor[it.P], it)
		if it.P > maxA {
			maxA = it.P
		}
	}
	recs := make([][]opRec, maxA+1)
	snaps := make([][]snapshot, maxA+1)
	var yields uint64
	ptxt := core.Bubble(t, p.Seed, p.Yield, func() {
		rt.SetYield(0)
		for _, it := range byActor[0] {
			inv := rt.Tick()
			out := applyTree(tr, it, &snaps[0])
			recs[0] = append(recs[0], opRec{0, it, inv, rt.Tick(), out})
		}
		rt.SetYield(uint32(p.Yield))
		var wg sync.WaitGroup
		for a := 1; a <= maxA; a++ {
			a := a
			wg.Add(1)
			go func() {
				defer wg.Done()
				for _, it := range byActor[a] {
					inv := rt.Tick()
					out := applyTree(tr, it, &snaps[a])
					ret := rt.Tick()
					recs[a] = append(recs[a], opRec{a, it, inv, ret, out})
				}
			}()
		}
		wg.Wait()
		yields = rt.Yields()
		rt.SetYield(0)
		fin := core.Item{K: "op", S: "dump"}
		inv := rt.Tick()
		out := applyTree(tr, fin, nil)
		recs[0] = append(recs[0], opRec{0, fin, inv, rt.Tick(), out})
	})
	if ptxt != "" {
		res.Violate("C05", "C05.panic", "bubble", ptxt)
		return
	}
	res.Yields = yields
	// merge the per-actor records by invocation stamp
	var all []opRec
	for _, l := range recs {
		all = append(all, l...)
	}
	sort.Slice(all, func(i, j int) bool { return all[i].inv < all[j].inv })
	var ops []porcupine.Operation
	overlap := 0
	var maxRet uint64
	var sched strings.Builder
	for _, r := range all {
		log.AddAt(r.inv, fmt.Sprintf("a%d %s -> %s @%d", r.actor, r.it.String(), r.out, r.ret))
		ops = append(ops, porcupine.Operation{ClientId: r.actor, Input: treeIn{r.it}, Call: int64(r.inv), Output: r.out, Return: int64(r.ret)})
		if r.inv < maxRet {
			overlap++
		}
		if r.ret > maxRet {
			maxRet = r.ret
		}
		fmt.Fprintf(&sched, "%d", r.actor)
	}
	r := porcupine.CheckOperationsTimeout(treePorcupine, ops, 20*time.Second)
	switch r {
	case porcupine.Illegal:
		var w []string
		for _, o := range all {
			w = append(w, fmt.Sprintf("a%d[%d,%d] %s -> %s", o.actor, o.inv, o.ret, o.it.String(), o.out))
		}
		res.Violate("C05", "C05.linearizable", "tree", "history is not linearizable against the map model: "+strings.Join(w, " | "))
	case porcupine.Unknown:
		res.Inconcl++
	}
	var flat []snapshot
	for _, s := range snaps {
		flat = append(flat, s...)
	}
	checkSnaps(res, flat, "the concurrent history ended")
	// final state must be explainable too: compare with the model reached by
	// applying the mutators in some linearization -- porcupine already did; here
	// only the structural no-panic/no-nil check via a full query sweep
	res.Steps = len(all)
	res.Nontrivial = overlap > 0
	res.Sched = sched.String() + fmt.Sprintf("/%d", overlap)
	res.Count("ops", int64(len(all)))
	res.Count("overlapping_ops", int64(overlap))
	res.Count("lock_yields", int64(yields))
	if res.Seed%97 == 2 {
		res.Sample = p.Brief(14)
	}
}
